# Sourced by setup.sh and check: offline Go environment for /verif.
export VERIF_ROOT="${VERIF_ROOT:-/verif}"
export VERIF_REPO="${VERIF_REPO:-/repo}"
export GOFLAGS=-mod=mod GOPROXY=off GONOSUMDB='*' GONOSUMCHECK=1 GONOSUMDB='*' GOFLAGS=-mod=mod
export GOMODCACHE="${GOMODCACHE:-/root/go/pkg/mod}"
_tc="$GOMODCACHE/golang.org/toolchain@v0.0.1-go1.24.0.linux-amd64"
if [ -x "$_tc/bin/go" ]; then
  export GOROOT="$_tc" PATH="$_tc/bin:$PATH" GOTOOLCHAIN=local
fi
