// Package c01 checks C01: exactly-once keyed state across worker failure and
// recovery, on a real in-process cluster.
package c01

import (
	"testing"

	"pgregory.net/rapid"
	"verifharness/cluster"
	"verifharness/hx"
)

func gen(rt *rapid.T) cluster.Program {
	return cluster.GenProgram(rt, []string{"tick", "tick", "tick", "kill", "kill", "killjob"}, 5)
}

func exec(p cluster.Program, c *hx.Case) error {
	st, err := cluster.Run(p, c)
	if err != nil {
		return err
	}
	c.LabelIf(st.Kills > 0, "worker-kill")
	c.LabelIf(st.PubDuringRecovery > 0, "checkpoint-published-while-the-recovery-was-being-deployed")
	c.LabelIf(st.SlowAssigns > 0, "slow-split-assignment")
	c.LabelIf(st.StallTicks > 0, "checkpoint-started-while-the-runners-queues-were-full")
	c.LabelIf(len(p.Fan) > 0, "records-keyed-into-several-events")
	c.LabelIf(st.KillsAfterCkpt > 0, "kill-after-checkpoint")
	c.LabelIf(st.KillsDuringCkpt > 0, "kill-during-checkpoint")
	c.LabelIf(st.JobRestarts > 0, "job-restart")
	c.LabelIf(st.CkptsBeforeEnd > 0, "checkpoint-published-before-the-input-ended")
	c.LabelIf(st.Ticks > 0, "tick")
	c.LabelIf(st.NonIdentityAcks > 0, "non-identity-ack-order")
	if st.KillsAfterCkpt > 0 || st.KillsDuringCkpt > 0 || (st.JobRestarts > 0 && st.Checkpoints > 1) {
		c.NonTrivial()
	}
	return nil
}

func TestPropExactlyOnce(t *testing.T) {
	hx.Run(t, hx.Spec{Prop: "C01", Persist: true, Rule: "a real in-process cluster: jobs.Job + 1..3 workers (operator + source runner each, real batching, snapshot store, DKV optionally tuned tiny) + up to 1 standby, 1..4 splits of 5..80 records over 3..12 keys and 1..32 key groups; a fault plan of <=5 actions taken at drawn inter-node call counts (every call passes a harness gate): checkpoint tick, kill a worker (heartbeats stop, deadline passes, a replacement starts), restart the job; the reference handler keeps per (key, split) the number of records applied in state and on EVERY invocation requires the supplied count to equal the record's ordinal (lost effect: count < ordinal; doubled: count > ordinal); at the end a final checkpoint is read back and must hold exactly the per-(key,split) totals; non-trivial = a kill after a completed checkpoint or while one is pending, or a job restart with >1 checkpoint"}, gen, exec)
}
