// Package c03 checks C03: keyed state behaves as a per-key map the handler
// fully controls, whatever happens underneath (batching, flush, compaction,
// checkpoint/restore).
package c03

import (
	"fmt"
	"strings"
	"testing"
	"time"

	"pgregory.net/rapid"
	"reduction.dev/reduction/batching"
	"reduction.dev/reduction/proto/snapshotpb"
	"verifharness/hx"
	"verifharness/opx"
)

var namespaces = []string{"", "a", "ab", "b", "\x00", "\x01a", "a\x00", strings.Repeat("n", 255), "\xff"}

type op struct {
	Kind   string // event | flush | checkpoint | restore | probe
	Key    int
	Sender int
	Muts   []opx.Mut
}
type prog struct {
	Tune    opx.Tuning
	Groups  int
	Batch   int
	Senders int
	NKeys   int
	KeyOff  int  // the subject keys are NKeys consecutive members of the adversarial pool (cyclically) from this offset on
	NewID   bool // restore into an operator with a new id (replacement worker) or the same id
	Ops     []op
}

func genTune(rt *rapid.T) opx.Tuning {
	return opx.Tuning{
		MemTable:   rapid.SampledFrom([]int{96, 160, 256, 512, 2048}).Draw(rt, "memtable"),
		TargetFile: rapid.SampledFrom([]int{64, 128, 512, 4096}).Draw(rt, "targetfile"),
		L0Trigger:  rapid.IntRange(1, 3).Draw(rt, "l0"),
		AmpPercent: rapid.SampledFrom([]int{1, 50, 200}).Draw(rt, "amp"),
		SmallLevel: rapid.SampledFrom([]int64{64, 1024, 1 << 28}).Draw(rt, "small"),
		RankSeed:   rapid.Uint32().Draw(rt, "rank"),
	}
}

func gen(rt *rapid.T) prog {
	p := prog{
		Tune:    genTune(rt),
		Groups:  rapid.SampledFrom([]int{1, 2, 3, 7, 16, 64, 64, 256, 256, 2048}).Draw(rt, "groups"), // a deploy costs one scan per owned key group
		Batch:   rapid.IntRange(1, 6).Draw(rt, "batch"),
		Senders: rapid.IntRange(1, 2).Draw(rt, "senders"),
		NKeys:   rapid.IntRange(2, 10).Draw(rt, "nkeys"),
		KeyOff:  rapid.SampledFrom([]int{0, 0, 5, 7, 9, 11, 12, 13, 16, 18}).Draw(rt, "keyoff"),
		NewID:   rapid.Bool().Draw(rt, "newid"),
	}
	n := rapid.IntRange(3, 60).Draw(rt, "n")
	for i := 0; i < n; i++ {
		k := rapid.SampledFrom([]string{"event", "event", "event", "event", "event", "event", "event", "event", "flush", "checkpoint", "restore", "probe"}).Draw(rt, "kind")
		o := op{Kind: k, Key: rapid.IntRange(0, p.NKeys-1).Draw(rt, "key"), Sender: rapid.IntRange(0, p.Senders-1).Draw(rt, "sender")}
		if k == "event" {
			nm := rapid.IntRange(0, 4).Draw(rt, "nmuts")
			for j := 0; j < nm; j++ {
				m := opx.Mut{
					NS:  rapid.SampledFrom(namespaces).Draw(rt, "ns"),
					Key: hx.KeyFrom(rt, 10, "ekey"),
					Del: rapid.IntRange(0, 3).Draw(rt, "del") == 0,
				}
				if !m.Del {
					m.Val = rapid.SliceOfN(rapid.Byte(), 0, 8).Draw(rt, "val")
				}
				o.Muts = append(o.Muts, m)
			}
		}
		p.Ops = append(p.Ops, o)
	}
	return p
}

func exec(p prog, c *hx.Case) error {
	w := opx.NewWorld(p.Tune)
	defer w.Close()
	senders := []string{"sr0", "sr1"}[:p.Senders]
	keys := make([][]byte, p.NKeys)
	for i := range keys {
		keys[i] = hx.AdversarialKeys[(p.KeyOff+i)%len(hx.AdversarialKeys)]
	}
	bp := batching.EventBatcherParams{MaxSize: p.Batch}
	gen := 0
	opID := "op-0"
	cur, err := w.StartOp(opID, bp)
	if err != nil {
		return err
	}
	if err := cur.Deploy(w.DeployRequest([]string{opID}, senders, p.Groups, nil)); err != nil {
		return hx.Errf("deploy: %v", err)
	}
	check := func(step int, what string) error {
		if v := w.H.Violations(); len(v) > 0 {
			return hx.Errf("step %d (%s): %s", step, what, strings.Join(v, "; "))
		}
		return nil
	}
	evID := 0
	var ckptID uint64
	var lastAck *opx.Ack
	restores := 0
	flush := func() error { return cur.Flush(senders[0], 0) }
	for step, o := range p.Ops {
		switch o.Kind {
		case "event":
			evID++
			if err := cur.Send(senders[o.Sender], opx.Keyed(keys[o.Key], opx.Script{ID: evID, Sender: senders[o.Sender], Muts: o.Muts}, int64(evID))); err != nil {
				return hx.Errf("step %d: HandleEvent: %v", step, err)
			}
		case "probe":
			for _, k := range keys {
				evID++
				if err := cur.Send(senders[0], opx.Keyed(k, opx.Script{ID: evID}, int64(evID))); err != nil {
					return hx.Errf("step %d: HandleEvent: %v", step, err)
				}
			}
			if err := flush(); err != nil {
				return err
			}
		case "flush":
			if err := flush(); err != nil {
				return err
			}
		case "checkpoint":
			ckptID++
			for _, s := range senders {
				if err := cur.Send(s, opx.Barrier(ckptID)); err != nil {
					return hx.Errf("step %d: barrier: %v", step, err)
				}
			}
			if !w.WaitAcks(ckptID, 1, 10*time.Second) {
				return &hx.Inconclusive{Why: "checkpoint not acknowledged"}
			}
			a := w.AcksOf(ckptID)[0]
			lastAck = &a
		case "restore":
			if lastAck == nil {
				continue
			}
			cur.Stop()
			w.SettleDead()
			gen++
			if p.NewID {
				opID = fmt.Sprintf("op-%d", gen)
			}
			cur, err = w.StartOp(opID, bp)
			if err != nil {
				return err
			}
			w.H.Reset(lastAck.Snap)
			if err := cur.Deploy(w.DeployRequest([]string{opID}, senders, p.Groups, []*snapshotpb.OperatorCheckpoint{lastAck.Ckpt})); err != nil {
				return hx.Errf("step %d: deploy from checkpoint %d: %v", step, lastAck.Ckpt.CheckpointId, err)
			}
			restores++
		}
		if err := check(step, o.Kind); err != nil {
			return err
		}
	}
	// final read-back of every key through the API
	for _, k := range keys {
		evID++
		if err := cur.Send(senders[0], opx.Keyed(k, opx.Script{ID: evID}, int64(evID))); err != nil {
			return hx.Errf("final probe: %v", err)
		}
	}
	if err := flush(); err != nil {
		return err
	}
	if err := check(len(p.Ops), "final probe of every key"); err != nil {
		return err
	}
	fs, cs, _ := w.Counters()
	c.LabelIf(fs > 0, "dkv-flush")
	c.LabelIf(cs > 0, "dkv-compaction")
	c.LabelIf(restores > 0, "restore")
	c.LabelIf(w.H.MaxBatch > 1, "batch>1")
	if fs > 0 && w.H.OverwritesOrDeletes > 0 {
		c.NonTrivial()
	}
	return nil
}

func TestPropKeyedState(t *testing.T) {
	hx.Run(t, hx.Spec{Prop: "C03", Persist: true, Rule: "one real Operator (1-2 upstreams, event batch size 1..6, key-group count 1..2048) whose DKV is tuned to a 96..2048 B memtable so that flush and compaction run underneath; 3..60 steps of keyed events carrying scripted puts/deletes over 9 adversarial namespaces (empty, prefix-related, 255 bytes, bytes imitating length prefixes) and 10 entry keys on 2..10 subject keys taken from anywhere in the adversarial pool (prefix relation, NUL and 0xff bytes, single bytes 0x00/0x01/0xfe/0xff), batch time-out flushes, checkpoints, restores into a fresh operator (same or new id) and probes; on EVERY handler invocation each supplied KeyState must equal the shadow map built from the mutations returned so far; non-trivial = >=1 DKV flush swap and >=1 overwrite/delete of an existing entry"}, gen, exec)
}
