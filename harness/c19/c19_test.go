// Package c19 checks C19: the in-memory ordered structures agree with a plain
// sorted-slice / map reference for every operation sequence.
package c19

import (
	"bytes"
	"fmt"
	"iter"
	"slices"
	"sort"
	"strings"
	"testing"

	"pgregory.net/rapid"
	"reduction.dev/reduction/dkv/kv"
	"reduction.dev/reduction/dkv/mergesort"
	"reduction.dev/reduction/dkv/ziptree"
	"reduction.dev/reduction/util/ds"
	"reduction.dev/reduction/util/iteru"
	"reduction.dev/reduction/util/sliceu"
	"reduction.dev/reduction/util/verifhook"
	"verifharness/hx"
)

// ---------------------------------------------------------------- zip tree

type ztOp struct {
	Kind string // put | get | ascend | rmw (a scan that is consumed lazily and overwrites keys that exist while it runs: the current one and ones still ahead; Val is the pattern)
	Key  []byte
	Val  []byte
}
type ztProg struct {
	Ranks []uint32 // consumed cyclically by the ziptree.rank hook
	Ops   []ztOp
}

func genZT(rt *rapid.T) ztProg {
	p := ztProg{}
	if rapid.Bool().Draw(rt, "tiedRanks") {
		p.Ranks = rapid.SliceOfN(rapid.Uint32Range(0, 3), 1, 16).Draw(rt, "ranks")
	} else {
		p.Ranks = rapid.SliceOfN(rapid.Uint32(), 1, 16).Draw(rt, "ranks")
	}
	n := rapid.IntRange(1, 60).Draw(rt, "n")
	for i := 0; i < n; i++ {
		k := rapid.SampledFrom([]string{"put", "put", "put", "put", "put", "put", "get", "get", "ascend", "ascend", "rmw"}).Draw(rt, "kind")
		op := ztOp{Kind: k, Key: hx.Key(rt, "key")}
		if k == "put" {
			op.Val = hx.Value(rt, "val")
		}
		if k == "rmw" {
			op.Val = rapid.SliceOfN(rapid.Byte(), 1, 6).Draw(rt, "pattern")
			if rapid.Bool().Draw(rt, "whole") {
				op.Key = nil
			}
		}
		p.Ops = append(p.Ops, op)
	}
	return p
}

func execZT(p ztProg, c *hx.Case) error {
	i := 0
	verifhook.SetTuner(func(name string, v any) {
		if name == "ziptree.rank" && len(p.Ranks) > 0 {
			*(v.(*uint32)) = p.Ranks[i%len(p.Ranks)]
			i++
		}
	})
	defer verifhook.SetTuner(nil)
	zt := ziptree.New()
	model := map[string][]byte{}
	replaces, rmwWrites := 0, 0
	checkAscend := func(prefix []byte) error {
		var want []string
		for _, k := range hx.SortedKeys(model) {
			if bytes.HasPrefix([]byte(k), prefix) {
				want = append(want, k)
			}
		}
		var got []string
		for n := range zt.AscendPrefix(prefix) {
			got = append(got, string(n.Key))
			if !bytes.Equal(n.Value, model[string(n.Key)]) {
				return hx.Errf("AscendPrefix(%q): key %q has value %q, model %q", prefix, n.Key, n.Value, model[string(n.Key)])
			}
		}
		if !slices.Equal(got, want) {
			return hx.Errf("AscendPrefix(%q) = %q, want %q", prefix, got, want)
		}
		return nil
	}
	for step, op := range p.Ops {
		switch op.Kind {
		case "put":
			old, had := model[string(op.Key)]
			rep := zt.Put(ziptree.NewNode(op.Key, op.Val, step))
			if had != (rep != nil) {
				return hx.Errf("step %d Put(%q): replaced=%v, model had=%v", step, op.Key, rep != nil, had)
			}
			if had {
				replaces++
				if !bytes.Equal(rep.Key, op.Key) || !bytes.Equal(rep.Value, old) {
					return hx.Errf("step %d Put(%q): replaced node (%q,%q), model had %q", step, op.Key, rep.Key, rep.Value, old)
				}
			}
			model[string(op.Key)] = op.Val
		case "get":
			n, ok := zt.Get(op.Key)
			want, had := model[string(op.Key)]
			if ok != had || (ok && !bytes.Equal(n.Value, want)) {
				return hx.Errf("step %d Get(%q) = %v, model %q,%v", step, op.Key, ok, want, had)
			}
		case "ascend":
			if err := checkAscend(op.Key); err != nil {
				return fmt.Errorf("step %d: %w", step, err)
			}
		case "rmw":
			// A read-modify-write loop over a prefix: the scan is consumed lazily and
			// the loop body overwrites keys that exist (no key appears or disappears):
			// the scan still yields every key under the prefix once, in order.
			var want []string
			for _, k := range hx.SortedKeys(model) {
				if bytes.HasPrefix([]byte(k), op.Key) {
					want = append(want, k)
				}
			}
			var got []string
			overwritten := map[string][][]byte{} // every value a key has held since the scan began
			i := 0
			for n := range zt.AscendPrefix(op.Key) {
				got = append(got, string(n.Key))
				if !bytes.Equal(n.Value, model[string(n.Key)]) && !slices.ContainsFunc(overwritten[string(n.Key)], func(v []byte) bool { return bytes.Equal(v, n.Value) }) {
					return hx.Errf("step %d: read-modify-write scan of %q: key %q has value %q, model %q", step, op.Key, n.Key, n.Value, model[string(n.Key)])
				}
				b := op.Val[i%len(op.Val)]
				var targets []string
				if b&1 == 1 {
					targets = append(targets, string(n.Key))
				}
				if b&2 == 2 && i+1 < len(want) && i < len(want) && want[i] == string(n.Key) {
					targets = append(targets, want[min(len(want)-1, i+1+int(b>>2)%3)])
				}
				for _, tk := range targets {
					nv := []byte(fmt.Sprintf("w%d.%d", step, i))
					overwritten[tk] = append(overwritten[tk], model[tk])
					if rep := zt.Put(ziptree.NewNode([]byte(tk), nv, step)); rep == nil {
						return hx.Errf("step %d: Put(%q) during a scan replaced nothing, the key exists", step, tk)
					}
					model[tk] = nv
					rmwWrites++
				}
				i++
			}
			if !slices.Equal(got, want) {
				return hx.Errf("step %d: a scan of %q whose loop body overwrote existing keys (pattern %v) yielded %q, the keys under the prefix are %q", step, op.Key, op.Val, got, want)
			}
		}
		// every key inserted so far is retrievable
		for k, v := range model {
			n, ok := zt.Get([]byte(k))
			if !ok || !bytes.Equal(n.Value, v) {
				return hx.Errf("step %d: after %s(%q) key %q lost or stale", step, op.Kind, op.Key, k)
			}
		}
	}
	if err := checkAscend(nil); err != nil {
		return err
	}
	if replaces > 0 && len(model) >= 3 {
		c.NonTrivial()
	}
	c.LabelIf(replaces > 0, "replace")
	c.LabelIf(rmwWrites > 0, "existing-key-overwritten-while-a-scan-is-suspended")
	return nil
}

func TestPropZipTree(t *testing.T) {
	hx.Run(t, hx.Spec{Prop: "C19", Rule: "Put/Get/AscendPrefix sequences (<=60 ops) over adversarial byte keys with generator-chosen ranks (tied or spread) vs map+sort, including scans that are consumed lazily while their loop body overwrites existing keys (the current one and ones still ahead); non-trivial = >=1 replace and >=3 keys"}, genZT, execZT)
}

// ---------------------------------------------------------------- heap

type heapOp struct {
	Kind string // push | pop | peek | fix
	Prio int
	Pick int
}
type heapProg struct{ Ops []heapOp }

type hItem struct {
	prio, id, index int
}

func genHeap(rt *rapid.T) heapProg {
	n := rapid.IntRange(1, 60).Draw(rt, "n")
	p := heapProg{}
	for i := 0; i < n; i++ {
		p.Ops = append(p.Ops, heapOp{
			Kind: rapid.SampledFrom([]string{"push", "push", "push", "pop", "peek", "fix", "fix"}).Draw(rt, "kind"),
			Prio: rapid.IntRange(0, 9).Draw(rt, "prio"),
			Pick: rapid.IntRange(0, 63).Draw(rt, "pick"),
		})
	}
	return p
}

func execHeap(p heapProg, c *hx.Case) error {
	h := ds.NewHeap(func(a, b *hItem) int { return a.prio - b.prio }, 4)
	h.SetIndexAssigner(func(it *hItem, i int) { it.index = i })
	var live []*hItem // model: the items currently in the heap
	minPrio := func() int {
		m := live[0].prio
		for _, it := range live {
			m = min(m, it.prio)
		}
		return m
	}
	fixes, pops := 0, 0
	for step, op := range p.Ops {
		switch op.Kind {
		case "push":
			it := &hItem{prio: op.Prio, id: step, index: -2}
			h.Push(it)
			live = append(live, it)
		case "pop":
			it, ok := h.Pop()
			if ok != (len(live) > 0) {
				return hx.Errf("step %d Pop ok=%v with %d items", step, ok, len(live))
			}
			if ok {
				pops++
				if it.prio != minPrio() {
					return hx.Errf("step %d Pop returned prio %d, minimum is %d", step, it.prio, minPrio())
				}
				idx := slices.Index(live, it)
				if idx < 0 {
					return hx.Errf("step %d Pop returned an item that is not in the heap", step)
				}
				live = slices.Delete(live, idx, idx+1)
			}
		case "peek":
			it, ok := h.Peek()
			if ok != (len(live) > 0) || (ok && it.prio != minPrio()) {
				return hx.Errf("step %d Peek = %v,%v", step, it, ok)
			}
		case "fix":
			if len(live) == 0 {
				continue
			}
			it := live[op.Pick%len(live)]
			it.prio = op.Prio
			h.Fix(it.index)
			fixes++
		}
		if h.Size() != len(live) || h.IsEmpty() != (len(live) == 0) {
			return hx.Errf("step %d Size=%d IsEmpty=%v, model %d", step, h.Size(), h.IsEmpty(), len(live))
		}
		if len(live) > 0 {
			if it, ok := h.Peek(); !ok || it.prio != minPrio() {
				return hx.Errf("step %d after %s: Peek prio %d, minimum %d", step, op.Kind, it.prio, minPrio())
			}
		}
	}
	// drain: non-decreasing, and exactly the live multiset
	prev := -1
	for len(live) > 0 {
		it, ok := h.Pop()
		if !ok {
			return hx.Errf("drain: heap empty with %d model items left", len(live))
		}
		if it.prio < prev {
			return hx.Errf("drain: prio %d after %d", it.prio, prev)
		}
		prev = it.prio
		idx := slices.Index(live, it)
		if idx < 0 {
			return hx.Errf("drain: popped unknown or duplicate item %v", *it)
		}
		live = slices.Delete(live, idx, idx+1)
	}
	if _, ok := h.Pop(); ok {
		return hx.Errf("drain: heap holds extra items")
	}
	if fixes > 0 && pops > 0 {
		c.NonTrivial()
	}
	return nil
}

func TestPropHeap(t *testing.T) {
	hx.Run(t, hx.Spec{Prop: "C19", Rule: "Push/Pop/Peek/Fix sequences over items with mutable priorities 0..9 (many ties) and an index assigner vs a slice scanned for its minimum; non-trivial = >=1 Fix and >=1 Pop"}, genHeap, execHeap)
}

// ---------------------------------------------------------------- partitioned priority queue

type ppqItem struct{ Prio, ID int }

type refPartition struct {
	items []ppqItem
	index int
}

func (r *refPartition) sortItems() {
	sort.SliceStable(r.items, func(i, j int) bool { return r.items[i].Prio < r.items[j].Prio })
}
func (r *refPartition) Peek() (ppqItem, bool) {
	if len(r.items) == 0 {
		return ppqItem{}, false
	}
	return r.items[0], true
}
func (r *refPartition) Pop() (ppqItem, bool) {
	if len(r.items) == 0 {
		return ppqItem{}, false
	}
	it := r.items[0]
	r.items = r.items[1:]
	return it, true
}
func (r *refPartition) Push(it ppqItem) { r.items = append(r.items, it); r.sortItems() }
func (r *refPartition) IsEmpty() bool   { return len(r.items) == 0 }
func (r *refPartition) Delete(it ppqItem) {
	if i := slices.Index(r.items, it); i >= 0 {
		r.items = slices.Delete(r.items, i, i+1)
	}
}
func (r *refPartition) AssignIndex(i int) { r.index = i }
func (r *refPartition) Index() int        { return r.index }

type ppqOp struct {
	Kind string // push | pop | peek | delete | deleteAbsent | empty
	Prio int
	Pick int
}
type ppqProg struct {
	Parts int
	Ops   []ppqOp
}

func genPPQ(rt *rapid.T) ppqProg {
	p := ppqProg{Parts: rapid.IntRange(0, 5).Draw(rt, "parts")}
	n := rapid.IntRange(1, 60).Draw(rt, "n")
	for i := 0; i < n; i++ {
		p.Ops = append(p.Ops, ppqOp{
			Kind: rapid.SampledFrom([]string{"push", "push", "push", "pop", "pop", "peek", "delete", "deleteAbsent", "empty"}).Draw(rt, "kind"),
			Prio: rapid.IntRange(0, 7).Draw(rt, "prio"),
			Pick: rapid.IntRange(0, 63).Draw(rt, "pick"),
		})
	}
	return p
}

func execPPQ(p ppqProg, c *hx.Case) error {
	parts := make([]ds.QueuePartition[ppqItem], p.Parts)
	for i := range parts {
		parts[i] = &refPartition{}
	}
	q := ds.NewPartitionedPriorityQueue(parts, func(a, b ppqItem) int { return a.Prio - b.Prio },
		func(it ppqItem) int { return it.ID % p.Parts })
	var live []ppqItem
	minPrio := func() int {
		m := live[0].Prio
		for _, it := range live {
			m = min(m, it.Prio)
		}
		return m
	}
	deletes, pops := 0, 0
	usedParts := map[int]bool{}
	for step, op := range p.Ops {
		switch op.Kind {
		case "push":
			if p.Parts == 0 {
				continue
			}
			it := ppqItem{Prio: op.Prio, ID: step*8 + op.Pick%8}
			q.Push(it)
			live = append(live, it)
			usedParts[it.ID%p.Parts] = true
		case "pop":
			it, ok := q.Pop()
			if ok != (len(live) > 0) {
				return hx.Errf("step %d Pop ok=%v with %d items", step, ok, len(live))
			}
			if ok {
				pops++
				if it.Prio != minPrio() {
					return hx.Errf("step %d Pop prio %d, minimum %d", step, it.Prio, minPrio())
				}
				i := slices.Index(live, it)
				if i < 0 {
					return hx.Errf("step %d Pop returned unknown item %v", step, it)
				}
				live = slices.Delete(live, i, i+1)
			}
		case "peek":
			it, ok := q.Peek()
			if ok != (len(live) > 0) || (ok && it.Prio != minPrio()) {
				return hx.Errf("step %d Peek = %v,%v; model has %d items", step, it, ok, len(live))
			}
		case "delete":
			if len(live) == 0 {
				continue
			}
			i := op.Pick % len(live)
			q.Delete(live[i])
			live = slices.Delete(live, i, i+1)
			deletes++
		case "deleteAbsent":
			if p.Parts == 0 {
				continue
			}
			q.Delete(ppqItem{Prio: op.Prio, ID: 1_000_000 + step*8 + op.Pick%8}) // never pushed
		case "empty":
		}
		if q.IsEmpty() != (len(live) == 0) {
			return hx.Errf("step %d IsEmpty=%v, model has %d items", step, q.IsEmpty(), len(live))
		}
		if len(live) > 0 {
			if it, ok := q.Peek(); !ok || it.Prio != minPrio() {
				return hx.Errf("step %d after %s: Peek %v,%v, minimum %d", step, op.Kind, it, ok, minPrio())
			}
		}
	}
	prev := -1
	for len(live) > 0 {
		it, ok := q.Pop()
		if !ok {
			return hx.Errf("drain: empty with %d model items left", len(live))
		}
		if it.Prio < prev {
			return hx.Errf("drain: prio %d after %d", it.Prio, prev)
		}
		prev = it.Prio
		i := slices.Index(live, it)
		if i < 0 {
			return hx.Errf("drain: unknown or duplicate item %v", it)
		}
		live = slices.Delete(live, i, i+1)
	}
	if _, ok := q.Pop(); ok {
		return hx.Errf("drain: extra items")
	}
	if len(usedParts) >= 2 && deletes > 0 && pops > 0 {
		c.NonTrivial()
	}
	return nil
}

func TestPropPPQ(t *testing.T) {
	hx.Run(t, hx.Spec{Prop: "C19", Rule: "Push/Pop/Peek/Delete/IsEmpty over 0..5 partitions with priorities 0..7 (ties across partitions) vs one flat slice; non-trivial = >=2 partitions used, >=1 Delete and >=1 Pop"}, genPPQ, execPPQ)
}

// ---------------------------------------------------------------- sorted cache

type scOp struct {
	Kind string // push | pop | poplast | peek | delete
	Key  []byte
}
type scProg struct {
	Max uint64
	Ops []scOp
}

func genSC(rt *rapid.T) scProg {
	p := scProg{Max: uint64(rapid.IntRange(0, 24).Draw(rt, "max"))}
	n := rapid.IntRange(1, 50).Draw(rt, "n")
	for i := 0; i < n; i++ {
		p.Ops = append(p.Ops, scOp{
			Kind: rapid.SampledFrom([]string{"push", "push", "push", "pop", "poplast", "peek", "delete"}).Draw(rt, "kind"),
			Key:  hx.KeyFrom(rt, 12, "key"),
		})
	}
	return p
}

func execSC(p scProg, c *hx.Case) error {
	sc := ds.NewSortedCache(p.Max)
	model := map[string]bool{}
	repush, deletes := 0, 0
	for step, op := range p.Ops {
		keys := hx.SortedKeys(model)
		switch op.Kind {
		case "push":
			if model[string(op.Key)] {
				repush++
			}
			sc.Push(op.Key)
			model[string(op.Key)] = true
		case "pop", "poplast":
			var got []byte
			var ok bool
			var want string
			if op.Kind == "pop" {
				got, ok = sc.Pop()
				if len(keys) > 0 {
					want = keys[0]
				}
			} else {
				got, ok = sc.PopLast()
				if len(keys) > 0 {
					want = keys[len(keys)-1]
				}
			}
			if ok != (len(keys) > 0) || (ok && string(got) != want) {
				return hx.Errf("step %d %s = %q,%v; model keys %q", step, op.Kind, got, ok, keys)
			}
			delete(model, want)
		case "peek":
			got, ok := sc.Peek()
			if ok != (len(keys) > 0) || (ok && string(got) != keys[0]) {
				return hx.Errf("step %d Peek = %q,%v; model keys %q", step, got, ok, keys)
			}
		case "delete":
			if model[string(op.Key)] {
				deletes++
			}
			sc.Delete(op.Key)
			delete(model, string(op.Key))
		}
		var size uint64
		for k := range model {
			size += uint64(len(k))
		}
		if sc.IsEmpty() != (len(model) == 0) {
			return hx.Errf("step %d IsEmpty=%v with %d keys", step, sc.IsEmpty(), len(model))
		}
		if sc.IsFull() != (size >= p.Max) {
			return hx.Errf("step %d after %s(%q): IsFull=%v but contents are %d bytes and the limit is %d", step, op.Kind, op.Key, sc.IsFull(), size, p.Max)
		}
	}
	if repush > 0 && deletes > 0 {
		c.NonTrivial()
	}
	return nil
}

func TestPropSortedCache(t *testing.T) {
	hx.Run(t, hx.Spec{Prop: "C19", Rule: "Push (incl. re-push of a present key)/Pop/PopLast/Peek/Delete with byte limit 0..24 vs a sorted key set whose byte size is recomputed from contents; non-trivial = >=1 re-push and >=1 effective delete"}, genSC, execSC)
}

// ---------------------------------------------------------------- set

type setOp struct {
	Kind string // new | of | add | added | without | diff | check
	On   int    // which of the sets created so far is the receiver
	Vals []int
	Cap  int // new: capacity
}
type setProg struct{ Ops []setOp }

func genSet(rt *rapid.T) setProg {
	n := rapid.IntRange(1, 40).Draw(rt, "n")
	p := setProg{}
	for i := 0; i < n; i++ {
		p.Ops = append(p.Ops, setOp{
			Kind: rapid.SampledFrom([]string{"new", "of", "add", "add", "added", "added", "added", "without", "diff", "check"}).Draw(rt, "kind"),
			On:   rapid.IntRange(0, 40).Draw(rt, "on"),
			Vals: rapid.SliceOfN(rapid.IntRange(0, 9), 0, 4).Draw(rt, "vals"),
			Cap:  rapid.SampledFrom([]int{0, 1, 2, 4, 16, 100}).Draw(rt, "cap"),
		})
	}
	return p
}

func refAdd(l []int, vs ...int) []int {
	l = slices.Clone(l)
	for _, v := range vs {
		if !slices.Contains(l, v) {
			l = append(l, v)
		}
	}
	return l
}
func refWithout(l []int, vs ...int) []int {
	var out []int
	for _, v := range l {
		if !slices.Contains(vs, v) {
			out = append(out, v)
		}
	}
	return out
}

// The set is used as a persistent structure (dkv/sst derives a level's next
// table set from the current one with Added/Without while readers still hold
// the current one): every set ever created stays in the population, any of
// them can be the receiver of the next operation, and after every operation
// ALL of them are compared with their models.
func execSet(p setProg, c *hx.Case) error {
	sets := []*ds.Set[int]{ds.NewSet[int](2)}
	models := [][]int{nil}
	same := func(what string, got *ds.Set[int], want []int) error {
		gl := slices.Collect(got.All())
		if !slices.Equal(gl, want) && !(len(gl) == 0 && len(want) == 0) {
			return hx.Errf("%s: All()=%v want %v", what, gl, want)
		}
		if sl := got.Slice(); !slices.Equal(sl, want) && !(len(sl) == 0 && len(want) == 0) {
			return hx.Errf("%s: Slice()=%v want %v", what, sl, want)
		}
		if got.Size() != len(want) {
			return hx.Errf("%s: Size()=%d want %d", what, got.Size(), len(want))
		}
		for v := 0; v < 10; v++ {
			if got.Has(v) != slices.Contains(want, v) {
				return hx.Errf("%s: Has(%d)=%v", what, v, got.Has(v))
			}
		}
		return nil
	}
	removed, siblings := 0, 0
	derivedFrom := map[int]int{}
	for step, op := range p.Ops {
		r := op.On % len(sets)
		w := fmt.Sprintf("step %d %s%v on set %d", step, op.Kind, op.Vals, r)
		switch op.Kind {
		case "new":
			sets, models = append(sets, ds.NewSet[int](op.Cap)), append(models, nil)
		case "of":
			sets, models = append(sets, ds.SetOf(op.Vals...)), append(models, refAdd(nil, op.Vals...))
		case "add":
			sets[r].Add(op.Vals...)
			models[r] = refAdd(models[r], op.Vals...)
		case "added":
			sets, models = append(sets, sets[r].Added(op.Vals...)), append(models, refAdd(models[r], op.Vals...))
			derivedFrom[r]++
			if derivedFrom[r] >= 2 {
				siblings++
			}
		case "without":
			want := refWithout(models[r], op.Vals...)
			removed += len(models[r]) - len(want)
			sets, models = append(sets, sets[r].Without(op.Vals...)), append(models, want)
		case "diff":
			want := refWithout(models[r], op.Vals...)
			removed += len(models[r]) - len(want)
			sets, models = append(sets, sets[r].Diff(ds.SetOf(op.Vals...))), append(models, want)
		case "check":
		}
		for i := range sets {
			if err := same(fmt.Sprintf("%s: set %d", w, i), sets[i], models[i]); err != nil {
				return err
			}
		}
	}
	c.LabelIf(siblings > 0, "two sets derived from one")
	if removed > 0 && siblings > 0 {
		c.NonTrivial()
	}
	return nil
}

func TestPropSet(t *testing.T) {
	hx.Run(t, hx.Spec{Prop: "C19", Rule: "the insertion-ordered set used as a persistent structure: a population of sets created with NewSet(capacity 0..100) / SetOf / Added / Without / Diff, any of which can receive the next Add/Added/Without/Diff; after every operation EVERY set of the population is compared (All, Slice, Size, Has over 0..9) with its own insertion-ordered slice model; non-trivial = >=1 element removed and two sets derived from the same one"}, genSet, execSet)
}

// ---------------------------------------------------------------- sorted map

type smOp struct {
	Kind string // set | delete | read
	Key  string
	Val  int
}
type smProg struct{ Ops []smOp }

func genSM(rt *rapid.T) smProg {
	n := rapid.IntRange(1, 40).Draw(rt, "n")
	p := smProg{}
	for i := 0; i < n; i++ {
		p.Ops = append(p.Ops, smOp{
			Kind: rapid.SampledFrom([]string{"set", "set", "set", "delete", "read"}).Draw(rt, "kind"),
			Key:  string(hx.KeyFrom(rt, 12, "key")),
			Val:  rapid.IntRange(0, 99).Draw(rt, "val"),
		})
	}
	return p
}

func execSM(p smProg, c *hx.Case) error {
	sm := ds.NewSortedMap[string, int]()
	model := map[string]int{}
	repl, dels := 0, 0
	reads, writesInARow, maxWritesInARow := 0, 0, 0
	// what: 0 Keys, 1 Values+Size, 2 All, 3 Get/Has of every key, 4 everything
	observe := func(step int, what int) error {
		keys := hx.SortedKeys(model)
		if what == 0 || what == 4 {
			if got := sm.Keys(); !slices.Equal(got, keys) && !(len(got) == 0 && len(keys) == 0) {
				return hx.Errf("step %d Keys()=%q want %q", step, got, keys)
			}
		}
		if what == 1 || what == 4 {
			vals := sm.Values()
			if len(vals) != len(keys) || sm.Size() != len(keys) {
				return hx.Errf("step %d Size()=%d len(Values())=%d want %d", step, sm.Size(), len(vals), len(keys))
			}
			for i, k := range keys {
				if vals[i] != model[k] {
					return hx.Errf("step %d Values()[%d]=%d, want %d (key %q)", step, i, vals[i], model[k], k)
				}
			}
		}
		if what == 2 || what == 4 {
			i := 0
			for k, v := range sm.All() {
				if i >= len(keys) || k != keys[i] || v != model[k] {
					return hx.Errf("step %d All() item %d = (%q,%d), want (%q,%d)", step, i, k, v, keys[min(i, len(keys)-1)], model[keys[min(i, len(keys)-1)]])
				}
				i++
			}
			if i != len(keys) {
				return hx.Errf("step %d All() yielded %d items, want %d", step, i, len(keys))
			}
		}
		if what == 3 || what == 4 {
			if sm.Size() != len(keys) {
				return hx.Errf("step %d Size()=%d want %d", step, sm.Size(), len(keys))
			}
			for _, k := range hx.AdversarialKeys[:12] {
				v, ok := sm.Get(string(k))
				mv, had := model[string(k)]
				if ok != had || v != mv || sm.Has(string(k)) != had {
					return hx.Errf("step %d Get(%q)=%d,%v want %d,%v", step, k, v, ok, mv, had)
				}
			}
		}
		return nil
	}
	for step, op := range p.Ops {
		switch op.Kind {
		case "set":
			_, had := model[op.Key]
			if isNew := sm.Set(op.Key, op.Val); isNew == had {
				return hx.Errf("step %d Set(%q) new=%v, model had=%v", step, op.Key, isNew, had)
			}
			if had {
				repl++
			}
			model[op.Key] = op.Val
		case "delete":
			_, had := model[op.Key]
			if rm := sm.Delete(op.Key); rm != had {
				return hx.Errf("step %d Delete(%q)=%v, model had=%v", step, op.Key, rm, had)
			}
			if had {
				dels++
			}
			delete(model, op.Key)
		}
		// Observations are ops of their own (and one full observation closes the
		// history): reading after every write would hide whatever a write leaves
		// behind for the next write, e.g. a lazily sorted list.
		if op.Kind == "read" {
			if err := observe(step, op.Val%5); err != nil {
				return err
			}
			reads++
		} else {
			writesInARow++
			maxWritesInARow = max(maxWritesInARow, writesInARow)
			continue
		}
		writesInARow = 0
	}
	if err := observe(len(p.Ops), 4); err != nil {
		return err
	}
	c.LabelIf(maxWritesInARow >= 3, ">=3 writes without a read between them")
	c.LabelIf(reads > 0, "reads inside the history")
	if repl > 0 && dels > 0 && maxWritesInARow >= 2 {
		c.NonTrivial()
	}
	return nil
}

func TestPropSortedMap(t *testing.T) {
	hx.Run(t, hx.Spec{Prop: "C19", Rule: "Set/Delete histories over 12 string keys with observations as ops of their own (one of Keys | Values+Size | All | Get/Has of every key | all of them, so that writes follow writes without a read between them) and a full observation at the end, vs map+sort; the results of Set and Delete are compared at every op; non-trivial = >=1 replace, >=1 effective delete and >=2 writes in a row"}, genSM, execSM)
}

// ---------------------------------------------------------------- merges

type mItem struct {
	K   []byte
	Seq uint64
	Del bool
}

func (m *mItem) Key() []byte    { return m.K }
func (m *mItem) Value() []byte  { return []byte(fmt.Sprint(m.Seq)) }
func (m *mItem) IsDelete() bool { return m.Del }
func (m *mItem) SeqNum() uint64 { return m.Seq }

type mergeProg struct {
	Runs [][]int // each run: indices into the adversarial key pool (sorted, unique per run)
	Take int     // consumer stops after Take items (-1 = all)
}

func genMerge(rt *rapid.T) mergeProg {
	k := rapid.IntRange(0, 5).Draw(rt, "k")
	p := mergeProg{Take: rapid.IntRange(-1, 12).Draw(rt, "take")}
	for i := 0; i < k; i++ {
		idx := rapid.SliceOfNDistinct(rapid.IntRange(0, 13), 0, 10, rapid.ID[int]).Draw(rt, "run")
		p.Runs = append(p.Runs, idx)
	}
	return p
}

func sortedPool() [][]byte {
	ks := slices.Clone(hx.AdversarialKeys[:14])
	slices.SortFunc(ks, bytes.Compare)
	return ks
}

func execMerge(p mergeProg, c *hx.Case) error {
	pool := sortedPool()
	var seq uint64
	best := map[string]*mItem{}
	iters := make([]iter.Seq[kv.Entry], len(p.Runs))
	plain := make([]iter.Seq[*mItem], len(p.Runs))
	var all []*mItem
	dups := 0
	// sequence numbers are assigned so that later runs are not uniformly newer
	for ri, run := range p.Runs {
		idx := slices.Clone(run)
		slices.Sort(idx)
		var items []*mItem
		for _, i := range idx {
			seq++
			s := seq*7919%1009 + 1
			it := &mItem{K: pool[i], Seq: s*10 + uint64(ri), Del: s%5 == 0}
			items = append(items, it)
			all = append(all, it)
			if b, ok := best[string(it.K)]; ok {
				dups++
				if it.Seq > b.Seq {
					best[string(it.K)] = it
				}
			} else {
				best[string(it.K)] = it
			}
		}
		its := items
		iters[ri] = func(yield func(kv.Entry) bool) {
			for _, it := range its {
				if !yield(it) {
					return
				}
			}
		}
		plain[ri] = slices.Values(its)
	}
	wantKeys := hx.SortedKeys(best)
	check := func(name string, seqIt iter.Seq[kv.Entry]) error {
		n := 0
		for e := range seqIt {
			if n >= len(wantKeys) {
				return hx.Errf("%s yielded more than %d items", name, len(wantKeys))
			}
			if string(e.Key()) != wantKeys[n] {
				return hx.Errf("%s item %d key %q, want %q", name, n, e.Key(), wantKeys[n])
			}
			if kv.Entry(best[wantKeys[n]]) != e {
				return hx.Errf("%s key %q picked seq %d, newest is %d", name, e.Key(), e.SeqNum(), best[wantKeys[n]].Seq)
			}
			n++
			if p.Take >= 0 && n >= p.Take {
				return nil
			}
		}
		if n != len(wantKeys) && !(p.Take >= 0 && n >= p.Take) {
			return hx.Errf("%s yielded %d items, want %d", name, n, len(wantKeys))
		}
		return nil
	}
	if err := check("kv.MergeEntries", kv.MergeEntries(iters)); err != nil {
		return err
	}
	// the generic form with an explicit pick (keep the larger sequence number)
	gen := mergesort.Merge(iters, kv.AscendingEntries, func(a, b kv.Entry) kv.Entry {
		if a.SeqNum() >= b.SeqNum() {
			return a
		}
		return b
	})
	if err := check("mergesort.Merge", gen); err != nil {
		return err
	}
	// the generic function over value types whose zero value is a legal element:
	// the keys as strings (the empty key is ""), and integers around zero
	if err := mergeValues("mergesort.Merge[string]", p, func(i int) string { return string(pool[i]) }, strings.Compare); err != nil {
		return err
	}
	if err := mergeValues("mergesort.Merge[int]", p, func(i int) int { return i - 3 }, func(a, b int) int { return a - b }); err != nil {
		return err
	}
	type rec struct {
		K string
		N uint8
	}
	if err := mergeValues("mergesort.Merge[struct]", p, func(i int) rec { return rec{K: string(pool[i])} }, func(a, b rec) int { return strings.Compare(a.K, b.K) }); err != nil {
		return err
	}
	// iteru.MergeSorted keeps duplicates: output is the sorted multiset union
	var got []*mItem
	n := 0
	for it := range iteru.MergeSorted(plain, func(a, b *mItem) int { return bytes.Compare(a.K, b.K) }) {
		got = append(got, it)
		n++
		if p.Take >= 0 && n >= p.Take {
			break
		}
	}
	want := slices.Clone(all)
	sort.SliceStable(want, func(i, j int) bool { return bytes.Compare(want[i].K, want[j].K) < 0 })
	if p.Take >= 0 {
		want = want[:min(len(want), max(p.Take, 1))]
	}
	if len(got) != len(want) {
		return hx.Errf("iteru.MergeSorted yielded %d items, want %d", len(got), len(want))
	}
	for i := range got {
		if !bytes.Equal(got[i].K, want[i].K) {
			return hx.Errf("iteru.MergeSorted item %d key %q, want %q", i, got[i].K, want[i].K)
		}
	}
	if p.Take < 0 {
		seen := map[*mItem]bool{}
		for _, it := range got {
			if seen[it] {
				return hx.Errf("iteru.MergeSorted yielded an item twice")
			}
			seen[it] = true
		}
	}
	if len(p.Runs) >= 2 && dups > 0 {
		c.NonTrivial()
	}
	return nil
}

// mergeValues runs mergesort.Merge over the runs of p with elements of a plain
// value type; elem must be strictly increasing in the pool index. The output
// must be the sorted set of all elements, each once.
func mergeValues[T comparable](name string, p mergeProg, elem func(int) T, cmp func(a, b T) int) error {
	present := map[int]bool{}
	iters := make([]iter.Seq[T], len(p.Runs))
	for ri, run := range p.Runs {
		idx := slices.Clone(run)
		slices.Sort(idx)
		vals := make([]T, len(idx))
		for j, i := range idx {
			vals[j] = elem(i)
			present[i] = true
		}
		iters[ri] = slices.Values(vals)
	}
	var want []T
	for i := 0; i < 14; i++ {
		if present[i] {
			want = append(want, elem(i))
		}
	}
	n := 0
	for v := range mergesort.Merge(iters, cmp, func(a, b T) T { return b }) {
		if n >= len(want) {
			return hx.Errf("%s yielded more than %d items (%v)", name, len(want), v)
		}
		if v != want[n] {
			return hx.Errf("%s item %d is %#v, the sorted union has %#v there (runs %v)", name, n, v, want[n], p.Runs)
		}
		n++
		if p.Take >= 0 && n >= p.Take {
			return nil
		}
	}
	if n != len(want) {
		return hx.Errf("%s yielded %d items, the sorted union has %d (runs %v)", name, n, len(want), p.Runs)
	}
	return nil
}

func TestPropMerge(t *testing.T) {
	hx.Run(t, hx.Spec{Prop: "C19", Rule: "0..5 key-ascending runs over 14 adversarial keys with interleaved sequence numbers, consumers that stop early; kv.MergeEntries / mergesort.Merge vs newest-per-key of the sorted union, mergesort.Merge over strings, integers around zero and structs (types whose zero value is an element) vs the sorted set, iteru.MergeSorted vs the sorted multiset; non-trivial = >=2 runs sharing >=1 key"}, genMerge, execMerge)
}

// ---------------------------------------------------------------- unique binary search

type suProg struct {
	Elems  []int // distinct, any order: sorted before use
	Target int
}

func genSU(rt *rapid.T) suProg {
	return suProg{
		Elems:  rapid.SliceOfNDistinct(rapid.IntRange(0, 100), 0, 40, rapid.ID[int]).Draw(rt, "elems"),
		Target: rapid.IntRange(-1, 101).Draw(rt, "target"),
	}
}

func execSU(p suProg, c *hx.Case) error {
	xs := slices.Clone(p.Elems)
	slices.Sort(xs)
	cmp := func(e, t int) int { return e - t }
	probe := func(target int) error {
		idx, ok := sliceu.SearchUnique(xs, target, cmp)
		want := slices.Index(xs, target)
		if ok != (want >= 0) || (ok && idx != want) {
			return hx.Errf("SearchUnique(%v, %d) = %d,%v; want index %d", xs, target, idx, ok, want)
		}
		return nil
	}
	if err := probe(p.Target); err != nil {
		return err
	}
	// every element, and the gaps next to it
	for _, x := range xs {
		for _, t := range []int{x - 1, x, x + 1} {
			if err := probe(t); err != nil {
				return err
			}
		}
	}
	if len(xs) >= 2 {
		c.NonTrivial()
	}
	return nil
}

func TestPropSearchUnique(t *testing.T) {
	hx.Run(t, hx.Spec{Prop: "C19", Rule: "sorted slices of 0..40 distinct ints; every element, both neighbours of every element and one drawn target vs linear search; non-trivial = length >= 2"}, genSU, execSU)
}

func FuzzPPQ(f *testing.F) {
	hx.Fuzz(f, hx.Spec{Prop: "C19"}, genPPQ, execPPQ)
}

func FuzzSortedCache(f *testing.F) {
	hx.Fuzz(f, hx.Spec{Prop: "C19"}, genSC, execSC)
}

func FuzzZipTree(f *testing.F) {
	hx.Fuzz(f, hx.Spec{Prop: "C19"}, genZT, execZT)
}
