// Package c02 checks C02: barrier alignment gives every operator checkpoint a
// consistent cut.
package c02

import (
	"context"
	"fmt"
	"strings"
	"sync"
	"testing"
	"time"

	"pgregory.net/rapid"
	"reduction.dev/reduction/batching"
	"reduction.dev/reduction/proto/snapshotpb"
	"reduction.dev/reduction/proto/workerpb"
	"verifharness/hx"
	"verifharness/opx"
)

type item struct {
	Kind string // event | wm | barrier | complete (the runner's source is exhausted: SourceComplete; afterwards it only relays barriers)
	Key  int
	WM   int64
}
type prog struct {
	Tune     opx.Tuning
	Batch    int
	Seqs     [][]item // one sequence per sender; barriers are numbered in order of appearance
	Schedule []int    // which sender advances next (-1: the batch time-out expires; -10-i: the i-th of the currently parked senders goes away, i.e. the request's context is cancelled)
}

func gen(rt *rapid.T) prog {
	s := rapid.IntRange(1, 4).Draw(rt, "senders")
	ckpts := rapid.IntRange(1, 3).Draw(rt, "ckpts")
	p := prog{
		Tune:  opx.Tuning{MemTable: rapid.SampledFrom([]int{128, 512, 1 << 20}).Draw(rt, "memtable"), TargetFile: 128, L0Trigger: 2, RankSeed: rapid.Uint32().Draw(rt, "rank")},
		Batch: rapid.IntRange(1, 4).Draw(rt, "batch"),
	}
	total := 0
	for i := 0; i < s; i++ {
		var seq []item
		for b := 0; b <= ckpts; b++ {
			n := rapid.IntRange(0, 4).Draw(rt, "n")
			for j := 0; j < n; j++ {
				if rapid.IntRange(0, 3).Draw(rt, "iswm") == 0 {
					seq = append(seq, item{Kind: "wm", WM: rapid.Int64Range(1, 30).Draw(rt, "wm")})
				} else {
					seq = append(seq, item{Kind: "event", Key: rapid.IntRange(0, 5).Draw(rt, "key")})
				}
			}
			if b < ckpts {
				seq = append(seq, item{Kind: "barrier"})
			}
		}
		if i > 0 && rapid.IntRange(0, 2).Draw(rt, "completes") == 0 && len(seq) > 0 {
			// this runner's source is exhausted at some point: it says so
			// (SourceComplete) and from then on only relays the job's barriers
			at := rapid.IntRange(0, len(seq)).Draw(rt, "completeat")
			done := append(append([]item{}, seq[:at]...), item{Kind: "complete"})
			for _, it := range seq[at:] {
				if it.Kind == "barrier" {
					done = append(done, it)
				}
			}
			seq = done
		}
		total += len(seq)
		p.Seqs = append(p.Seqs, seq)
	}
	// -1 in the schedule: the handler batch's time-out expires at that moment (its
	// token reaches the operator's loop whenever the loop picks it)
	p.Schedule = rapid.SliceOfN(rapid.OneOf(rapid.IntRange(0, s-1), rapid.IntRange(0, s-1), rapid.IntRange(0, s-1), rapid.Just(-1)), total, total*2).Draw(rt, "schedule")
	if s >= 2 && rapid.IntRange(0, 2).Draw(rt, "goesaway") == 0 {
		// one runner goes away at some point of the schedule
		for k := rapid.IntRange(1, 3).Draw(rt, "tries"); k > 0; k-- { // (the first one that finds a parked request counts)
			at := rapid.IntRange(0, len(p.Schedule)-1).Draw(rt, "awayat")
			p.Schedule[at] = -10 - rapid.IntRange(0, s-1).Draw(rt, "who")
		}
	}
	return p
}

type senderState struct {
	id      string
	seq     []item
	next    int // index of the next item to send
	wm      int64
	inCall  bool
	parked  bool
	goCh    chan struct{}
	doneCh  chan error
	evIDs   []int // event id of each item (0 for non-events)
	barrier []int // for each item index: number of barriers strictly before it
	ctx     context.Context
	cancel  context.CancelFunc
	gone    bool // the runner went away: its parked request was abandoned, it sends nothing further
}

func exec(p prog, c *hx.Case) error {
	w := opx.NewWorld(p.Tune)
	defer w.Close()
	keys := hx.AdversarialKeys[1:7]
	nS := len(p.Seqs)
	ids := make([]string, nS)
	for i := range ids {
		ids[i] = fmt.Sprintf("sr%d", i)
	}
	op, err := w.StartOp("op", batching.EventBatcherParams{MaxSize: p.Batch})
	if err != nil {
		return err
	}
	if err := op.Deploy(w.DeployRequest([]string{"op"}, ids, 8, nil)); err != nil {
		return hx.Errf("deploy: %v", err)
	}
	// per-sender bookkeeping; event ids are global and unique
	st := make([]*senderState, nS)
	evID := 0
	owner := map[int]int{}  // event id -> sender
	before := map[int]int{} // event id -> number of that sender's barriers before it
	wmBefore := make([]map[int]int64, nS)
	for i, seq := range p.Seqs {
		s := &senderState{id: ids[i], seq: seq, goCh: make(chan struct{}), doneCh: make(chan error, 1)}
		s.ctx, s.cancel = context.WithCancel(context.Background())
		defer s.cancel()
		nb := 0
		wmBefore[i] = map[int]int64{}
		var curWM int64
		for _, it := range seq {
			s.barrier = append(s.barrier, nb)
			id := 0
			switch it.Kind {
			case "event":
				evID++
				id = evID
				owner[id], before[id] = i, nb
			case "wm":
				curWM = max(curWM, it.WM)
			case "barrier":
				nb++
				wmBefore[i][nb] = curWM // the sender's watermark as of its barrier nb
			}
			s.evIDs = append(s.evIDs, id)
		}
		st[i] = s
	}
	// parked notifications from the operator's alignment wait
	var mu sync.Mutex
	events := make(chan string, 64)
	parkedNowMap := map[string]bool{} // maintained at the hook points themselves: who sits in the alignment wait right now
	w.OnPoint = func(name string, args ...any) {
		if name == "operator.align.parked" && len(args) > 0 {
			mu.Lock()
			parkedNowMap[args[0].(string)] = true
			mu.Unlock()
			events <- "parked:" + args[0].(string)
		}
		if name == "operator.align.released" && len(args) > 0 {
			mu.Lock()
			parkedNowMap[args[0].(string)] = false
			mu.Unlock()
		}
	}
	// acknowledgements: check the cut at the moment the job is told
	var cutErr error
	acks := 0
	w.OnAck = func(a opx.Ack) {
		n := int(a.Ckpt.CheckpointId)
		mu.Lock()
		defer mu.Unlock()
		acks++
		applied := map[int]bool{}
		w.H.Lock()
		for _, id := range w.H.Applied {
			applied[id] = true
		}
		wms := append([]int64(nil), w.H.Watermarks...)
		fired := append([]opx.Fired(nil), w.H.FiredLog...)
		w.H.Unlock()
		for id, s := range owner {
			if before[id] < n && !applied[id] {
				cutErr = hx.Errf("checkpoint %d was acknowledged without event %d, which runner %s delivered before its barrier %d", n, id, ids[s], n)
			}
			if before[id] >= n && applied[id] {
				cutErr = hx.Errf("checkpoint %d contains event %d, which runner %s delivered after its barrier %d", n, id, ids[s], n)
			}
		}
		// no watermark from behind a barrier may have been acted on
		limit := int64(1) << 62
		for i := range ids {
			limit = min(limit, wmBefore[i][n])
		}
		for _, got := range wms {
			if got > limit {
				cutErr = hx.Errf("before checkpoint %d completed the handler was told watermark %d, but the minimum of the runners' watermarks ahead of their barrier %d is %d", n, got, n, limit)
			}
		}
		for _, f := range fired {
			if f.TS > limit {
				cutErr = hx.Errf("before checkpoint %d completed timer %d fired, beyond the pre-barrier minimum watermark %d", n, f.TS, limit)
			}
		}
	}
	run := func(s *senderState) {
		for range s.goCh {
			it := s.seq[s.next]
			var err error
			switch it.Kind {
			case "event":
				id := s.evIDs[s.next]
				err = op.SendCtx(s.ctx, s.id, opx.Keyed(keys[it.Key%len(keys)], opx.Script{ID: id, Sender: s.id,
					Muts: []opx.Mut{{NS: "log", Key: []byte(fmt.Sprint(id)), Val: []byte{1}}}, Timers: []int64{int64(5 + id%20)}}, int64(id)))
			case "wm":
				s.wm = max(s.wm, it.WM) // a runner's watermark never decreases
				err = op.SendCtx(s.ctx, s.id, opx.Watermark(s.wm))
			case "barrier":
				err = op.SendCtx(s.ctx, s.id, opx.Barrier(uint64(s.barrier[s.next]+1)))
			case "complete":
				err = op.SendCtx(s.ctx, s.id, &workerpb.Event{Event: &workerpb.Event_SourceComplete{SourceComplete: &workerpb.SourceCompleteEvent{}}})
			}
			s.doneCh <- err
		}
	}
	for _, s := range st {
		go run(s)
	}
	parkedEver, behindBarrier := 0, 0
	// settle: wait until sender s's call returned or parked
	waitCall := func(s *senderState) error {
		deadline := time.After(20 * time.Second)
		for {
			select {
			case err := <-s.doneCh:
				s.inCall, s.parked = false, false
				s.next++
				if err != nil && !s.gone {
					return hx.Errf("runner %s: HandleEvent: %v", s.id, err)
				}
				return nil
			case ev := <-events:
				id := strings.TrimPrefix(ev, "parked:")
				for _, o := range st {
					if o.id == id {
						o.parked = true
						parkedEver++
						if o.seq[o.next].Kind == "event" {
							behindBarrier++
						}
					}
				}
				if id == s.id {
					return nil
				}
			case <-deadline:
				return &hx.Inconclusive{Why: "a sender neither returned nor parked"}
			}
		}
	}
	// collect results of calls that were parked earlier and have completed since
	drainDone := func() error {
		for _, s := range st {
			if s.inCall {
				select {
				case err := <-s.doneCh:
					s.inCall, s.parked = false, false
					s.next++
					if err != nil && !s.gone {
						return hx.Errf("runner %s: HandleEvent: %v", s.id, err)
					}
				default:
				}
			}
		}
		return nil
	}
	timeouts, goneAt, abandoned := 0, 0, 0
	for _, pick := range p.Schedule {
		if err := drainDone(); err != nil {
			return err
		}
		if pick <= -10 {
			// A runner goes away while its request waits for the alignment: the
			// request's context is cancelled. The runner sends nothing further; the
			// others complete the pending checkpoint and stop there (no later
			// checkpoint can complete without this runner's barrier).
			var parkedNow []*senderState
			mu.Lock()
			for _, o := range st {
				if o.inCall && o.parked && parkedNowMap[o.id] {
					parkedNow = append(parkedNow, o)
				}
			}
			mu.Unlock()
			if goneAt > 0 || len(parkedNow) == 0 {
				continue
			}
			s := parkedNow[(-10-pick)%len(parkedNow)]
			pendingID := s.barrier[s.next] // barriers this runner has delivered = the pending checkpoint
			// (the others go on up to, but not including, their barrier for the next checkpoint)
			cuts := map[*senderState]int{}
			possible := s.seq[s.next].Kind != "barrier"
			for _, o := range st {
				if o == s {
					continue
				}
				for i := range o.seq {
					if o.seq[i].Kind == "barrier" && o.barrier[i] == pendingID {
						cuts[o] = i
						if i < o.next || (o.inCall && i == o.next) {
							possible = false // (that barrier is on its way already: the runner was not parked after all)
						}
						break
					}
				}
			}
			if !possible {
				continue
			}
			goneAt = pendingID
			s.gone = true
			s.seq = s.seq[:s.next+1]
			for o, i := range cuts {
				o.seq = o.seq[:i]
			}
			s.cancel()
			abandoned++
			// the abandoned request may return now or stay parked until the alignment ends
			select {
			case err := <-s.doneCh:
				_ = err
				s.inCall, s.parked = false, false
				s.next++
			case <-time.After(3 * time.Millisecond):
			}
			mu.Lock()
			e := cutErr
			mu.Unlock()
			if e != nil {
				return e
			}
			continue
		}
		if pick < 0 {
			if op.Timer.FireAsync() {
				timeouts++
			}
			continue
		}
		s := st[pick%nS]
		if s.inCall || s.next >= len(s.seq) {
			continue
		}
		s.inCall = true
		s.goCh <- struct{}{}
		if err := waitCall(s); err != nil {
			return err
		}
		mu.Lock()
		e := cutErr
		mu.Unlock()
		if e != nil {
			return e
		}
	}
	// run everything that is left, round robin, until all sequences are done
	for rounds := 0; ; rounds++ {
		if err := drainDone(); err != nil {
			return err
		}
		progress, left := false, false
		for _, s := range st {
			if s.next < len(s.seq) {
				left = true
			}
			if !s.inCall && s.next < len(s.seq) {
				s.inCall = true
				s.goCh <- struct{}{}
				if err := waitCall(s); err != nil {
					return err
				}
				progress = true
			}
		}
		if !left {
			break
		}
		if !progress {
			// everyone is parked: should be impossible once all barriers of the pending checkpoint were sent
			select {
			case ev := <-events:
				_ = ev
			case <-time.After(50 * time.Millisecond):
			}
			if rounds > 400 {
				return hx.Errf("all runners are parked and no checkpoint completes: the alignment never releases them")
			}
		}
	}
	for _, s := range st {
		close(s.goCh)
	}
	mu.Lock()
	e := cutErr
	nAcks := acks
	mu.Unlock()
	if e != nil {
		return e
	}
	if v := w.H.Violations(); len(v) > 0 {
		return hx.Errf("%s", strings.Join(v, "; "))
	}
	// every checkpoint of the program must have been taken
	want := 0
	for _, it := range p.Seqs[0] {
		if it.Kind == "barrier" {
			want++
		}
	}
	if goneAt > 0 {
		want = goneAt
	}
	if nAcks != want {
		return hx.Errf("%d checkpoints were acknowledged, the runners sent barriers for %d", nAcks, want)
	}
	// restoring each reported checkpoint shows exactly the cut
	for n := 1; n <= want; n++ {
		a := w.AcksOf(uint64(n))[0]
		op.Stop()
		w.SettleDead()
		w.H.Reset(a.Snap)
		op, err = w.StartOp(fmt.Sprintf("restored-%d", n), batching.EventBatcherParams{MaxSize: 1})
		if err != nil {
			return err
		}
		if err := op.Deploy(w.DeployRequest([]string{op.ID}, ids, 8, []*snapshotpb.OperatorCheckpoint{a.Ckpt})); err != nil {
			return hx.Errf("restoring checkpoint %d: %v", n, err)
		}
		for i, k := range keys {
			if err := op.Send(ids[0], opx.Keyed(k, opx.Script{ID: 100000 + n*100 + i}, 1)); err != nil {
				return hx.Errf("probing restored checkpoint %d: %v", n, err)
			}
		}
		if v := w.H.Violations(); len(v) > 0 {
			return hx.Errf("checkpoint %d restored: %s", n, strings.Join(v, "; "))
		}
	}
	completes := 0
	for _, seq := range p.Seqs {
		for _, it := range seq {
			if it.Kind == "complete" {
				completes++
			}
		}
	}
	c.LabelIf(completes > 0, "a-runner-completed-and-went-on-relaying-barriers")
	c.LabelIf(parkedEver > 0, "sender-parked")
	c.LabelIf(abandoned > 0, "parked-request-abandoned-by-its-runner")
	c.LabelIf(timeouts > 0, "batch-time-out-expired-during-the-schedule")
	c.LabelIf(behindBarrier > 0, "event-queued-behind-barrier")
	if nS >= 2 && parkedEver > 0 && behindBarrier > 0 && want >= 2 {
		c.NonTrivial()
	}
	return nil
}

func TestPropAlignment(t *testing.T) {
	hx.Run(t, hx.Spec{Prop: "C02", Persist: true, Rule: "one real Operator, 1..4 sender goroutines each with its own generated sequence of keyed events (appending their id to state and setting a timer), watermarks and barriers for 1..3 consecutive checkpoints (a third of the runners other than the first report their source exhausted at some point and only relay barriers afterwards); a generated schedule picks which sender advances, a step ends when that sender's HandleEvent returned or parked in the alignment wait (verif hook); in a third of the cases one runner goes away while its request is parked (the request's context is cancelled, it sends nothing further, the others complete the pending checkpoint); at every OperatorCheckpointComplete(N) the handler must have applied exactly the events each sender emitted before its barrier N, must not have been told a watermark (or fired a timer) beyond the minimum of the pre-barrier watermarks; finally each reported checkpoint is restored and probed against the model state at its acknowledgement; non-trivial = >=2 senders, >=1 parked with an event queued behind its barrier, >=2 checkpoints"}, gen, exec)
}
