// Package c04 checks C04: in a run without failures every record is delivered
// exactly once, per split and key in order, and barriers and watermarks never
// overtake records.
package c04

import (
	"testing"

	"pgregory.net/rapid"
	"verifharness/cluster"
	"verifharness/hx"
)

func gen(rt *rapid.T) cluster.Program {
	p := cluster.GenProgram(rt, []string{"tick"}, 4)
	// handler latencies that make asynchronous KeyEventBatch calls complete out of order
	p.LatencyUs = rapid.SliceOfN(rapid.SampledFrom([]int{0, 0, 30, 150, 600}), 1, 8).Draw(rt, "latency")
	p.Standby = 0
	return p
}

func exec(p cluster.Program, c *hx.Case) error {
	st, err := cluster.Run(p, c)
	if err != nil {
		return err
	}
	if st.SelfExits > 0 {
		return hx.Errf("a worker stopped on its own in a run without injected failures: %v", st.ExitReasons)
	}
	c.LabelIf(st.MaxKeyCalls >= 2, "concurrent-key-calls")
	c.LabelIf(len(p.Fan) > 0, "records-keyed-into-several-events")
	c.LabelIf(st.WMTicks > 0, "watermark-ticks")
	c.LabelIf(st.BarriersBothSides > 0, "barrier-with-records-on-both-sides")
	if st.MaxKeyCalls >= 2 && st.BarriersBothSides > 0 {
		c.NonTrivial()
	}
	return nil
}

func TestPropDelivery(t *testing.T) {
	hx.Run(t, hx.Spec{Prop: "C04", Persist: true, Rule: "the C01 cluster without failures: 1..3 workers, 1..4 splits of 5..80 records (splits assigned round robin; in a third of the cases KeyEvent keys records into two or three events with keys of their own), batch sizes 1..5 with a 1 ms time-out, read batches 1..4, KeyEventBatch latencies 0..600us drawn per call (asynchronous completions out of order), <=4 checkpoint ticks and <=8 watermark ticks of the source runners (their 200 ms ticker is the harness's, through a hook); every operator's incoming stream is recorded at the transport: each record exactly once at the operator whose range holds its key group, per (split,key) in split order, watermarks per runner monotone / below the largest forwarded timestamp / not behind records delivered earlier, reported split positions consistent with the barrier position in every stream, plus the C01 state oracle; non-trivial = >=2 KeyEventBatch calls in flight at once and a barrier with records of its runner on both sides"}, gen, exec)
}
