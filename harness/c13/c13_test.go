// Package c13 checks C13: a restart resumes from the newest completed
// checkpoint present in storage, wherever a crash interrupted publication or
// cleanup, and retention never drops it.
package c13

import (
	"fmt"
	"os"
	"path/filepath"
	"slices"
	"sort"
	"strings"
	"sync"
	"sync/atomic"
	"testing"
	"time"

	"google.golang.org/protobuf/proto"
	"pgregory.net/rapid"
	"reduction.dev/reduction/connectors"
	"reduction.dev/reduction/proto/jobpb"
	"reduction.dev/reduction/proto/snapshotpb"
	"reduction.dev/reduction/storage/locations"
	"reduction.dev/reduction/storage/snapshots"
	"reduction.dev/reduction/util/verifhook"
	"verifharness/coord"
	"verifharness/hx"
)

type op struct {
	Kind string // complete | holdw | holdr | holdp | holdc | relw | relr | relp | relc | current | recv | restart
	On   bool
	Pick int
	SP   bool // complete: the checkpoint is a savepoint
}
type prog struct {
	Ops      []op
	CrashAll bool
	Crash    []int
	RealDir  bool // also replay the final storage through a real LocalDirectory
}

func gen(rt *rapid.T) prog {
	p := prog{CrashAll: os.Getenv("VERIF_CRASH_ALL") == "1", Crash: rapid.SliceOfN(rapid.IntRange(0, 1000), 0, 4).Draw(rt, "crash"),
		RealDir: rapid.IntRange(0, 9).Draw(rt, "realdir") == 0}
	n := rapid.IntRange(2, 30).Draw(rt, "n")
	for i := 0; i < n; i++ {
		p.Ops = append(p.Ops, op{
			Kind: rapid.SampledFrom([]string{"complete", "complete", "complete", "complete", "holdw", "holdr", "holdp", "holdc", "relw", "relr", "relp", "relp", "relc", "current", "current", "recv", "recv", "restart"}).Draw(rt, "kind"),
			On:   rapid.Bool().Draw(rt, "on"),
			Pick: rapid.IntRange(0, 3).Draw(rt, "pick"),
			SP:   rapid.IntRange(0, 3).Draw(rt, "sp") == 0,
		})
	}
	return p
}

type splitter struct {
	connectors.UnimplementedSourceSplitter
}

func (s *splitter) Checkpoint() []byte { return nil }

func snapshotID(data []byte) (uint64, bool) {
	var jc snapshotpb.JobCheckpoint
	if err := proto.Unmarshal(data, &jc); err != nil {
		return 0, false
	}
	return jc.Id, true
}

// newestIn returns the largest checkpoint id among the snapshot files of a storage.
func newestIn(l *coord.Loc) (uint64, string) {
	var best uint64
	var bestPath string
	for _, p := range l.Files() {
		if !strings.HasSuffix(p, ".snapshot") {
			continue
		}
		data, _ := l.Read(p)
		if id, ok := snapshotID(data); ok && id >= best {
			best, bestPath = id, p
		}
	}
	return best, bestPath
}

func loadFrom(l locations.StorageLocation) (uint64, error) {
	s := snapshots.NewStore(&snapshots.NewStoreParams{FileStore: l, SavepointsPath: "savepoints", CheckpointsPath: "checkpoints"})
	var err error
	func() {
		defer func() {
			if r := recover(); r != nil {
				err = fmt.Errorf("LoadCheckpoint panicked: %v", r)
			}
		}()
		err = s.LoadCheckpoint()
	}()
	if err != nil {
		return 0, err
	}
	return s.CurrentCheckpoint().GetId(), nil
}

func exec(p prog, c *hx.Case) error {
	loc := coord.NewLoc("/job")
	defer loc.ReleaseAll()
	events := make(chan string, 256)
	pubsExpected := 0 // checkpoints the current incarnation of the job completed: each ends in an event or an error
	errc := make(chan error, 256)
	// each incarnation of the job process has its own view of the storage and its
	// own channels; a replaced incarnation is dead: what its goroutines still do
	// reaches neither the storage nor anybody's channel
	var retained chan []uint64
	var client *coord.Client
	var curStore atomic.Pointer[snapshots.Store]
	stop := make(chan struct{})
	defer close(stop)
	newStore := func() *snapshots.Store {
		if client != nil {
			client.Kill()
			go func(old chan []uint64) {
				for {
					select {
					case <-old:
					case <-stop:
						return
					}
				}
			}(retained)
		}
		client = loc.Client()
		retained = make(chan []uint64) // unbuffered, as the job creates it
		errc = make(chan error, 256)
		events = make(chan string, 256)
		pubsExpected = 0
		s := snapshots.NewStore(&snapshots.NewStoreParams{FileStore: client, SavepointsPath: "savepoints", CheckpointsPath: "checkpoints",
			CheckpointEvents: events, ErrChan: errc, RetainedCheckpointsUpdated: retained})
		s.RegisterSourceSplitter(&splitter{})
		curStore.Store(s)
		return s
	}
	store := newStore()
	// Publications start in goroutines of their own; the harness can hold each at
	// its very beginning (hook point) and let them go in any order.
	var pmu sync.Mutex
	pcond := sync.NewCond(&pmu)
	holdP := false
	type heldPub struct {
		id       uint64
		released bool
	}
	var heldPubs []*heldPub
	heldEver := 0
	verifhook.SetPoint(func(name string, args ...any) {
		if name != "snapshots.publish.begin" || len(args) < 2 || args[0] != any(curStore.Load()) {
			return // (also: a replaced job process is not scheduled by anybody any more)
		}
		pmu.Lock()
		defer pmu.Unlock()
		if !holdP {
			return
		}
		h := &heldPub{id: args[1].(uint64)}
		heldPubs = append(heldPubs, h)
		heldEver++
		pcond.Broadcast()
		for holdP && !h.released {
			pcond.Wait()
		}
		for i, x := range heldPubs {
			if x == h {
				heldPubs = append(heldPubs[:i], heldPubs[i+1:]...)
				break
			}
		}
	})
	defer verifhook.SetPoint(nil)
	releaseAllPubs := func() {
		pmu.Lock()
		holdP = false
		pcond.Broadcast()
		pmu.Unlock()
	}
	defer releaseAllPubs()
	heldCount := func() int {
		pmu.Lock()
		defer pmu.Unlock()
		return heldEver
	}
	// the operator's own checkpoints file: it lists the checkpoints the operator
	// retains (what it acknowledged, minus what a retention update let it drop)
	opHas := map[uint64]bool{}
	writeOpFile := func() {
		var ids []uint64
		for id := range opHas {
			ids = append(ids, id)
		}
		sort.Slice(ids, func(i, j int) bool { return ids[i] < ids[j] })
		var b strings.Builder
		b.WriteString(`{"checkpoints":[`)
		for i, id := range ids {
			if i > 0 {
				b.WriteString(",")
			}
			fmt.Fprintf(&b, `{"id":%d,"wals":[],"levels":[]}`, id)
		}
		b.WriteString("]}")
		loc.Put("work/op/checkpoints", []byte(b.String()))
	}
	applyRetention := func(ids []uint64) {
		var newest uint64
		for _, id := range ids {
			newest = max(newest, id)
		}
		for id := range opHas {
			if !slices.Contains(ids, id) && id < newest { // newer ones are still in progress: kept
				delete(opHas, id)
			}
		}
		writeOpFile()
	}
	savepoints := map[uint64]int{} // savepoint id -> incarnation of the job process that completed it
	outOfOrder, currentChecks := 0, 0
	var notes [][]uint64 // retention notifications in the order received
	var completedIDs []uint64
	overlaps, restarts := 0, 0
	recvAll := func(d time.Duration) {
		for {
			select {
			case ids := <-retained:
				notes = append(notes, ids)
				applyRetention(ids) // the job forwards it to the operators
			case <-time.After(d):
				return
			}
		}
	}
	for step, o := range p.Ops {
		switch o.Kind {
		case "complete":
			var id uint64
			var err error
			if o.SP {
				id, _, err = store.CreateSavepoint([]string{"op"}, []string{"sr"})
			} else {
				id, err = store.CreateCheckpoint([]string{"op"}, []string{"sr"})
			}
			if err != nil {
				return hx.Errf("step %d: creating checkpoint (savepoint=%v): %v", step, o.SP, err)
			}
			if o.SP {
				savepoints[id] = restarts
			}
			opHas[id] = true // the operator wrote its checkpoint before it acknowledges
			writeOpFile()
			heldBefore := heldCount()
			if loc.Blocked("write") > 0 {
				overlaps++
			}
			if err := store.AddOperatorSnapshot(&snapshotpb.OperatorCheckpoint{CheckpointId: id, OperatorId: "op", DkvFileUri: "/job/work/op/checkpoints",
				KeyGroupRange: &snapshotpb.KeyGroupRange{Start: 0, End: 1}}); err != nil {
				return hx.Errf("step %d: AddOperatorSnapshot: %v", step, err)
			}
			before := loc.StartedCount("write")
			if err := store.AddSourceSnapshot(&jobpb.SourceRunnerCheckpointCompleteRequest{CheckpointId: id, SourceRunnerId: "sr", SplitStates: [][]byte{[]byte("s")}}); err != nil {
				return hx.Errf("step %d: AddSourceSnapshot: %v", step, err)
			}
			completedIDs = append(completedIDs, id)
			pubsExpected++
			// the publication goroutine has started its write (or is held at it)
			// (publications are serialized: behind a held write the next one queues up
			// without starting its own write)
			deadline := time.Now().Add(5 * time.Second)
			for loc.StartedCount("write") == before && loc.Blocked("write") == 0 && loc.Blocked("remove") == 0 && loc.Blocked("copy") == 0 && heldCount() == heldBefore && time.Now().Before(deadline) {
				time.Sleep(10 * time.Microsecond)
			}
		case "holdw":
			loc.SetHold("write", o.On)
		case "holdr":
			loc.SetHold("remove", o.On)
		case "holdp":
			pmu.Lock()
			holdP = o.On
			pcond.Broadcast()
			pmu.Unlock()
		case "relp":
			pmu.Lock()
			if n := len(heldPubs); n > 0 {
				i := 0
				if o.Pick%2 == 1 {
					i = n - 1 // the youngest first: publications begin out of completion order
					if n > 1 {
						outOfOrder++
					}
				}
				heldPubs[i].released = true
				pcond.Broadcast()
			}
			pmu.Unlock()
			time.Sleep(50 * time.Microsecond)
		case "holdc":
			loc.SetHold("copy", o.On)
		case "relc":
			loc.ReleaseOne("copy", "")
		case "current":
			// While the artifact of a savepoint is being copied (held here), its snapshot
			// file is written and nothing else is being published: an assembly restart
			// at this moment (jobs.Job.start deploys from CurrentCheckpoint) has to
			// recover from it.
			time.Sleep(100 * time.Microsecond)
			if loc.Blocked("copy") > 0 && loc.Blocked("write") == 0 {
				newest, _ := newestIn(loc)
				if cur := store.CurrentCheckpoint().GetId(); cur != newest {
					return hx.Errf("step %d: while the artifact of a savepoint is being copied, an assembly restart would recover from checkpoint %d (CurrentCheckpoint) although checkpoint %d is completed and in storage", step, cur, newest)
				}
				currentChecks++
			}
		case "relw":
			loc.ReleaseOne("write", "")
		case "relr":
			loc.ReleaseOne("remove", "")
		case "recv":
			recvAll(200 * time.Microsecond)
		case "restart":
			// the job process is replaced once what is in flight had time to land; what
			// has not landed by then dies with the process (a crash point)
			loc.SetHold("write", false)
			loc.SetHold("remove", false)
			loc.SetHold("copy", false)
			releaseAllPubs()
			recvAll(2 * time.Millisecond)
			store = newStore()
			if err := store.LoadCheckpoint(); err != nil {
				return hx.Errf("step %d: LoadCheckpoint: %v", step, err)
			}
			restarts++
		}
		select {
		case err := <-errc:
			return hx.Errf("step %d: publication failed: %v", step, err)
		default:
		}
	}
	// let everything in flight land
	loc.SetHold("write", false)
	loc.SetHold("remove", false)
	loc.SetHold("copy", false)
	releaseAllPubs()
	// every publication of the current incarnation reports its end (an event, or an
	// error); retention notifications keep being received meanwhile
	deadline := time.Now().Add(10 * time.Second)
	for got := 0; got < pubsExpected; {
		select {
		case <-events:
			got++
		case err := <-errc:
			return hx.Errf("publication failed: %v", err)
		case ids := <-retained:
			notes = append(notes, ids)
			applyRetention(ids)
		case <-time.After(time.Until(deadline)):
			return &hx.Inconclusive{Why: "publications did not finish in time"}
		}
	}
	recvAll(3 * time.Millisecond)
	select {
	case err := <-errc:
		return hx.Errf("publication failed: %v", err)
	default:
	}
	// every savepoint the last incarnation of the job completed has its artifact,
	// and the artifact's copy of the operator's checkpoints file lists the savepoint
	spDone := 0
	for id, inc := range savepoints {
		if inc != restarts {
			continue // a replaced job process may have died before it got that far
		}
		found := false
		for _, f := range loc.Files() {
			i := strings.Index(f, "/dkv/")
			if i < 0 || !strings.HasSuffix(f, "/op/checkpoints") || !strings.Contains(f, "/savepoints/") {
				continue
			}
			data, _ := loc.Read(f)
			if strings.Contains(string(data), fmt.Sprintf(`{"id":%d,`, id)) {
				if _, err := loc.Read(f[:i] + "/job.savepoint"); err == nil {
					found = true
				}
			}
		}
		if !found {
			return hx.Errf("savepoint %d completed (every member acknowledged) and everything in flight has landed, but no artifact holds it (files: %v)", id, loc.Files())
		}
		spDone++
	}
	journal := loc.Journal()
	// 1. cleanup never removes the newest completely written checkpoint
	nameOrderDiffers := 0
	for i, jop := range journal {
		if jop.Kind != "remove" {
			continue
		}
		before := loc.At(i)
		newest, path := newestIn(before)
		if path == jop.Path {
			return hx.Errf("storage operation %d removes %s, which holds checkpoint %d, the newest completely written one at that moment", i+1, filepath.Base(jop.Path), newest)
		}
	}
	// 2. a restart after a crash at any storage operation resumes from the newest checkpoint present
	var points []int
	if p.CrashAll {
		for i := 0; i <= len(journal); i++ {
			points = append(points, i)
		}
	} else {
		points = append(points, len(journal))
		for _, s := range p.Crash {
			points = append(points, s%(len(journal)+1))
		}
	}
	for _, pt := range points {
		at := loc.At(pt)
		newest, _ := newestIn(at)
		snaps := 0
		first := ""
		for _, f := range at.Files() {
			if strings.HasSuffix(f, ".snapshot") {
				snaps++
				if first == "" {
					first = f
				}
			}
		}
		if snaps >= 2 {
			if data, _ := at.Read(first); data != nil {
				if id, _ := snapshotID(data); id != newest {
					nameOrderDiffers++
				}
			}
		}
		got, err := loadFrom(at)
		if err != nil {
			return hx.Errf("crash after storage operation %d of %d: %v", pt, len(journal), err)
		}
		if got != newest {
			return hx.Errf("crash after storage operation %d of %d: the restarted job resumes from checkpoint %d, the newest completed checkpoint in storage is %d (files: %v)", pt, len(journal), got, newest, at.Files())
		}
	}
	// 3. retention notifications: each contains the newest checkpoint published when it
	// was sent, hence they never go backwards
	var high uint64
	for i, ids := range notes {
		var m uint64
		for _, id := range ids {
			m = max(m, id)
		}
		if m < high {
			return hx.Errf("retention notification %d tells the operators to keep only %v after an earlier notification named checkpoint %d: the newer checkpoint would be dropped", i, ids, high)
		}
		high = max(high, m)
	}
	// 4. the same final storage through a real directory
	if p.RealDir {
		dir, err := os.MkdirTemp(os.Getenv("VERIF_SCRATCH"), "c13")
		if err != nil {
			return &hx.Inconclusive{Why: "no scratch directory"}
		}
		defer os.RemoveAll(dir)
		real := locations.NewLocalDirectory(dir)
		final := loc.At(len(journal))
		for _, f := range final.Files() {
			data, _ := final.Read(f)
			if _, err := real.Write(strings.TrimPrefix(f, "/job/"), strings.NewReader(string(data))); err != nil {
				return hx.Errf("writing to a real directory: %v", err)
			}
		}
		newest, _ := newestIn(final)
		got, err := loadFrom(real)
		if err != nil {
			return hx.Errf("restart from a real directory: %v", err)
		}
		if got != newest {
			return hx.Errf("restart from a real directory resumes from checkpoint %d, newest is %d", got, newest)
		}
	}
	c.LabelIf(overlaps > 0, "overlapping-publications")
	c.LabelIf(nameOrderDiffers > 0, "file-name-order-differs-from-id-order")
	c.LabelIf(restarts > 0, "restart")
	c.LabelIf(spDone > 0, "savepoint")
	c.LabelIf(currentChecks > 0, "CurrentCheckpoint-read-during-an-artifact-copy")
	c.LabelIf(heldCount() > 0, "publication-held-at-its-start")
	c.LabelIf(outOfOrder > 0, "publications-begin-out-of-completion-order")
	if len(completedIDs) >= 2 && (nameOrderDiffers > 0 || overlaps > 0 || outOfOrder > 0) {
		c.NonTrivial()
	}
	return nil
}

func TestPropRestart(t *testing.T) {
	hx.Run(t, hx.Spec{Prop: "C13", Rule: "snapshots.Store over a journaling in-memory StorageLocation (lexical listing like a directory walk; 1 in 10 cases replays the final storage through the real LocalDirectory): 2..30 steps completing checkpoints while the asynchronous snapshot writes and removals are held and released one at a time, so that publications of consecutive checkpoints overlap, with retention notifications received late, and clean restarts; then (a) no journaled Remove may name the newest completely written checkpoint, (b) at crash points after storage operations (all of them with VERIF_CRASH_ALL=1 = thorough tier; the end plus <=4 drawn ones otherwise) a new Store must load exactly the newest checkpoint present in the materialised storage, (c) retention notifications never go backwards; non-trivial = >=2 checkpoints and either two snapshot files coexisting whose name order differs from id order or overlapping publications"}, gen, exec)
}
