package c20

import (
	"context"
	"sort"
	"sync"
	"testing"
	"time"

	"pgregory.net/rapid"
	"reduction.dev/reduction/batching"
	"verifharness/hx"
)

// ---------------------------------------------------------------- a time-out overtaken by a size flush
//
// Two goroutines use one batcher, as in workers/sourcerunner and in the
// operator: one adds and flushes by size (or explicitly), the other flushes
// with the tokens the time-outs deliver. The harness owns the timer, so it can
// let a time-out expire at the earliest possible moment (while the Add that
// armed it has not returned yet): its flusher then waits for the batcher while
// the adder goes on, flushes that batch itself and starts the next ones.
// Whatever the scheduler does from there, the flusher's stale token may hand
// out nothing but the batch it was armed for.

type otOp struct {
	Kind string // add | flush (explicit, current batch)
}
type otProg struct {
	MaxSize int
	FireAt  int // the FireAt-th timer that is armed expires at once
	Ops     []otOp
	Tail    int // operations of the adder after the Add that armed that timer (-1 = all that are left)
	PauseUs int // the adder does something else for this long after that Add
}

func genOT(rt *rapid.T) otProg {
	p := otProg{MaxSize: rapid.IntRange(1, 5).Draw(rt, "max"), FireAt: rapid.IntRange(1, 6).Draw(rt, "fireat"),
		Tail: rapid.SampledFrom([]int{-1, -1, 1, 2, 3}).Draw(rt, "tail"), PauseUs: rapid.SampledFrom([]int{0, 0, 20, 80}).Draw(rt, "pause")}
	n := rapid.IntRange(2, 30).Draw(rt, "n")
	for i := 0; i < n; i++ {
		p.Ops = append(p.Ops, otOp{Kind: rapid.SampledFrom([]string{"add", "add", "add", "flush"}).Draw(rt, "kind")})
	}
	return p
}

// raceTimer is a clocks.Timer as the batcher sees the real one: a single slot
// (Set replaces what is pending, Stop cancels what is pending at that moment).
// Stop takes its time, as stopping a system timer may.
type raceTimer struct {
	mu      sync.Mutex
	sets    int
	fireAt  int
	inSet   chan func()
	release chan struct{}
	pending bool // a time-out is armed and has neither expired nor been stopped
}

func (t *raceTimer) Set(d time.Duration, do func()) {
	t.mu.Lock()
	t.sets++
	n := t.sets
	t.pending = n != t.fireAt // (the fireAt-th expires at once)
	t.mu.Unlock()
	if n == t.fireAt {
		t.inSet <- do
		<-t.release
	}
}
func (t *raceTimer) Stop() {
	time.Sleep(30 * time.Microsecond)
	t.mu.Lock()
	t.pending = false
	t.mu.Unlock()
}
func (t *raceTimer) setCount() int {
	t.mu.Lock()
	defer t.mu.Unlock()
	return t.sets
}
func (t *raceTimer) armed() bool {
	t.mu.Lock()
	defer t.mu.Unlock()
	return t.pending
}

func execOT(p otProg, c *hx.Case) error {
	ctx, cancel := context.WithCancel(context.Background())
	defer cancel()
	tm := &raceTimer{fireAt: p.FireAt, inSet: make(chan func(), 1), release: make(chan struct{})}
	b := batching.NewEventBatcher[int](ctx, batching.EventBatcherParams{MaxSize: p.MaxSize, MaxDelay: time.Millisecond, Timer: tm})
	var mu sync.Mutex
	var batches [][]int
	adding, added := -1, 0
	note := func(got []int) {
		if got != nil {
			mu.Lock()
			batches = append(batches, got)
			mu.Unlock()
		}
	}
	mDone := make(chan struct{})
	go func() { // the adder
		defer close(mDone)
		next := 0
		left := -1
		for _, o := range p.Ops {
			if left == 0 {
				break
			}
			if left > 0 {
				left--
			}
			switch o.Kind {
			case "add":
				mu.Lock()
				adding = next
				mu.Unlock()
				setsBefore := tm.setCount()
				b.Add(next)
				if tm.fireAt > setsBefore && tm.fireAt <= tm.setCount() {
					// this Add armed the time-out that expired at once
					if p.Tail >= 0 {
						left = p.Tail + 1
					}
					if p.PauseUs > 0 {
						time.Sleep(time.Duration(p.PauseUs) * time.Microsecond)
					}
				}
				next++
				mu.Lock()
				added = next
				mu.Unlock()
				if b.IsFull() {
					note(b.Flush(batching.CurrentBatch))
				}
			case "flush":
				note(b.Flush(batching.CurrentBatch))
			}
		}
	}()
	armedFor := -1
	var late []int
	lateDone := make(chan struct{})
	fired := false
	select {
	case do := <-tm.inSet:
		fired = true
		mu.Lock()
		armedFor = adding // the first item of the batch this time-out belongs to
		mu.Unlock()
		go do()
		go func() { // the time-out flusher
			defer close(lateDone)
			select {
			case tok := <-b.BatchTimedOut:
				late = b.Flush(tok)
			case <-time.After(10 * time.Second):
			}
		}()
		time.Sleep(300 * time.Microsecond) // the flusher has its token and waits for the batcher
		close(tm.release)
	case <-mDone:
		close(lateDone)
	}
	select {
	case <-mDone:
	case <-time.After(20 * time.Second):
		return &hx.Inconclusive{Why: "the adder did not finish"}
	}
	select {
	case <-lateDone:
	case <-time.After(20 * time.Second):
		return &hx.Inconclusive{Why: "the time-out flusher did not finish"}
	}
	if late != nil && late[0] != armedFor {
		return hx.Errf("the time-out armed for the batch that starts with item %d expired at once; by the time its flusher got hold of the batcher that batch had been flushed by the adder, yet the stale token handed out %v, a later batch", armedFor, late)
	}
	note(late)
	// Items that wait in the current batch must have a time-out armed: nothing
	// else will ever hand them out if no further item arrives.
	stillArmed := tm.armed()
	rest := b.Flush(batching.CurrentBatch)
	if len(rest) > 0 && !stillArmed {
		return hx.Errf("items %v wait in the current batch and no time-out is armed for it (it was stopped by the flush of the batch before, which ran beside the Add that started this one): without further input they are never handed out", rest)
	}
	note(rest)
	sort.Slice(batches, func(i, j int) bool { return batches[i][0] < batches[j][0] })
	want := 0
	for _, bt := range batches {
		for _, it := range bt {
			if it != want {
				return hx.Errf("the batches handed out are %v: item %d is missing, duplicated or out of order (%d items were added)", batches, want, added)
			}
			want++
		}
		if p.MaxSize > 0 && len(bt) > p.MaxSize {
			return hx.Errf("a batch of %d items was handed out, the size limit is %d", len(bt), p.MaxSize)
		}
	}
	if want != added {
		return hx.Errf("%d items were added, the batches handed out hold %d: %v", added, want, batches)
	}
	c.LabelIf(fired, "time-out-expired-while-its-batch-was-being-started")
	c.LabelIf(fired && late == nil, "stale-token-flushed-nothing")
	c.LabelIf(fired && late != nil, "time-out-flusher-won")
	if fired && len(batches) >= 3 {
		c.NonTrivial()
	}
	return nil
}

func TestPropBatcherOvertaken(t *testing.T) {
	hx.Run(t, hx.Spec{Prop: "C20", Rule: "one EventBatcher (size 1..4) used by two goroutines as the source runner and the operator use it: an adder (2..30 Add / explicit Flush, size flushes when full) and a time-out flusher; the harness's timer lets the n-th time-out expire while the Add that armed it is still inside the batcher, so its flusher waits with its token while the adder flushes that batch itself and starts later ones; whatever the scheduler does, the flusher's Flush(token) hands out nothing or the batch it was armed for, and all batches together are the items added, each once, in order; the timer has one slot like the real one and Stop takes 30us, and items left in the current batch at the end must have a time-out armed; non-trivial = the time-out fired and >=3 batches"}, genOT, execOT)
}
