// Package c20 checks C20: batching never loses, duplicates or reorders items.
package c20

import (
	"bytes"
	"context"
	"runtime"
	"slices"
	"sync"
	"sync/atomic"
	"testing"
	"time"

	"pgregory.net/rapid"
	"reduction.dev/reduction/batching"
	"reduction.dev/reduction/util/verifhook"
	"verifharness/hx"
)

// manualTimer records every callback ever set so that the harness can fire the
// current one, or a stale one (a real timer can fire just before Stop).
type manualTimer struct {
	mu      sync.Mutex
	all     []func()
	stopped []bool
}

func (t *manualTimer) Set(d time.Duration, do func()) {
	t.mu.Lock()
	defer t.mu.Unlock()
	t.all = append(t.all, do)
	t.stopped = append(t.stopped, false)
}
func (t *manualTimer) Stop() {
	t.mu.Lock()
	defer t.mu.Unlock()
	for i := range t.stopped {
		t.stopped[i] = true
	}
}
func (t *manualTimer) pick(i int, allowStopped bool) (func(), int) {
	t.mu.Lock()
	defer t.mu.Unlock()
	if len(t.all) == 0 {
		return nil, -1
	}
	if allowStopped {
		return t.all[i%len(t.all)], i % len(t.all)
	}
	j := len(t.all) - 1
	if t.stopped[j] {
		return nil, -1
	}
	return t.all[j], j
}
func (t *manualTimer) count() int {
	t.mu.Lock()
	defer t.mu.Unlock()
	return len(t.all)
}

// ---------------------------------------------------------------- EventBatcher

type ebOp struct {
	Kind string // add | full | flush | flushToken | fire | fireStale
	Arg  int
}
type ebProg struct {
	MaxSize int
	DelayMs int
	Ops     []ebOp
}

func genEB(rt *rapid.T) ebProg {
	p := ebProg{MaxSize: rapid.IntRange(0, 5).Draw(rt, "max"), DelayMs: rapid.IntRange(0, 2).Draw(rt, "delay")}
	n := rapid.IntRange(1, 50).Draw(rt, "n")
	for i := 0; i < n; i++ {
		p.Ops = append(p.Ops, ebOp{
			Kind: rapid.SampledFrom([]string{"add", "add", "add", "add", "full", "flush", "flushToken", "fire", "fireStale"}).Draw(rt, "kind"),
			Arg:  rapid.IntRange(-1, 6).Draw(rt, "arg"),
		})
	}
	return p
}

func execEB(p ebProg, c *hx.Case) error {
	ctx, cancel := context.WithCancel(context.Background())
	defer cancel()
	tm := &manualTimer{}
	b := batching.NewEventBatcher[int](ctx, batching.EventBatcherParams{MaxSize: p.MaxSize, MaxDelay: time.Duration(p.DelayMs) * time.Millisecond, Timer: tm})
	maxSize := max(p.MaxSize, 1)
	var added, flushed, cur []int
	token := int64(0)
	next := 0
	staleNil, timeouts, sizeFlushes := 0, 0, 0
	flush := func(step int, tok batching.BatchToken, why string) error {
		got := b.Flush(tok)
		expectFlush := len(cur) > 0 && (tok == batching.CurrentBatch || int64(tok) == token)
		if !expectFlush {
			if got != nil {
				return hx.Errf("step %d %s Flush(%d) returned %v although the current batch has token %d and %d items", step, why, tok, got, token, len(cur))
			}
			staleNil++
			return nil
		}
		if !slices.Equal(got, cur) {
			return hx.Errf("step %d %s Flush(%d) = %v, want the current batch %v", step, why, tok, got, cur)
		}
		flushed = append(flushed, got...)
		cur = nil
		token++
		return nil
	}
	armed := map[int]int64{} // timer callback -> token of the batch it was set for
	fire := func(step int, cb func(), idx int, why string) error {
		if cb == nil {
			return nil
		}
		go cb()
		select {
		case tok := <-b.BatchTimedOut:
			timeouts++
			// the time-out of a batch that has been flushed already flushes nothing,
			// however late its callback runs
			if set, ok := armed[idx]; ok && set < token && len(cur) > 0 && (int64(tok) == token || tok == batching.CurrentBatch) {
				return hx.Errf("step %d %s: the time-out that was set for the batch with token %d, flushed long ago, announces token %d: it would flush the current batch (token %d, %d items)", step, why, set, tok, token, len(cur))
			}
			return flush(step, tok, why)
		case <-time.After(10 * time.Second):
			return &hx.Inconclusive{Why: "timer callback did not deliver a token"}
		}
	}
	for step, op := range p.Ops {
		switch op.Kind {
		case "add":
			before := tm.count()
			b.Add(next)
			if tm.count() > before {
				armed[tm.count()-1] = token
			}
			added, cur = append(added, next), append(cur, next)
			next++
			if b.IsFull() { // what every caller does
				sizeFlushes++
				if err := flush(step, batching.CurrentBatch, "size-triggered"); err != nil {
					return err
				}
			}
		case "full":
			if got := b.IsFull(); got != (len(cur) >= maxSize) {
				return hx.Errf("step %d IsFull=%v with %d of %d items", step, got, len(cur), maxSize)
			}
		case "flush":
			if err := flush(step, batching.CurrentBatch, "explicit"); err != nil {
				return err
			}
		case "flushToken":
			if err := flush(step, batching.BatchToken(token+int64(op.Arg)), "token"); err != nil {
				return err
			}
		case "fire":
			cb, idx := tm.pick(0, false)
			if err := fire(step, cb, idx, "time-out"); err != nil {
				return err
			}
		case "fireStale":
			cb, idx := tm.pick(max(op.Arg, 0), true)
			if err := fire(step, cb, idx, "late time-out"); err != nil {
				return err
			}
		}
	}
	if err := flush(len(p.Ops), batching.CurrentBatch, "final"); err != nil {
		return err
	}
	if !slices.Equal(flushed, added) && !(len(flushed) == 0 && len(added) == 0) {
		return hx.Errf("concatenated batches %v differ from the items added %v", flushed, added)
	}
	if timeouts > 0 && sizeFlushes > 0 && staleNil > 0 {
		c.NonTrivial()
	}
	return nil
}

func TestPropEventBatcher(t *testing.T) {
	hx.Run(t, hx.Spec{Prop: "C20", Rule: "Add/IsFull/Flush(current)/Flush(token current,stale,future)/timer expiry (current and already-stopped timers: a callback that had started cannot be recalled and runs late; the one of a batch flushed already must not announce the current batch) with MaxSize 0..5 vs a list model; non-trivial = >=1 time-out flush, >=1 size flush and >=1 stale token"}, genEB, execEB)
}

// ---------------------------------------------------------------- ReorderFetcher

type rfOp struct {
	Kind string // add | fire | flush
}
type rfProg struct {
	MaxSize   int
	BufSize   int
	Ops       []rfOp
	FetchUs   []int // latency of the i-th fetch call (cyclic)
	HookUs    []int // pause of the adder's i-th flush between Flush and Reserve (cyclic)
	TimerUs   []int // the same for the time-out goroutine's flushes
	ConsumeUs int   // consumer pause per item
}

func genRF(rt *rapid.T) rfProg {
	p := rfProg{
		MaxSize:   rapid.IntRange(1, 4).Draw(rt, "max"),
		BufSize:   rapid.IntRange(0, 4).Draw(rt, "buf"),
		FetchUs:   rapid.SliceOfN(rapid.SampledFrom([]int{0, 0, 20, 100, 400}), 1, 8).Draw(rt, "fetchUs"),
		HookUs:    rapid.SliceOfN(rapid.SampledFrom([]int{0, 0, 0, 0, 50, 300}), 1, 8).Draw(rt, "hookUs"),
		TimerUs:   rapid.SliceOfN(rapid.SampledFrom([]int{0, 100, 500, 1500}), 1, 4).Draw(rt, "timerUs"),
		ConsumeUs: rapid.SampledFrom([]int{0, 0, 30}).Draw(rt, "consumeUs"),
	}
	n := rapid.IntRange(1, 40).Draw(rt, "n")
	for i := 0; i < n; i++ {
		p.Ops = append(p.Ops, rfOp{Kind: rapid.SampledFrom([]string{"add", "add", "add", "fire", "flush"}).Draw(rt, "kind")})
	}
	return p
}

func pause(us int) {
	if us > 0 {
		time.Sleep(time.Duration(us) * time.Microsecond)
	}
}

func execRF(p rfProg, c *hx.Case) error {
	ctx, cancel := context.WithCancel(context.Background())
	defer cancel()
	tm := &manualTimer{}
	batcher := batching.NewEventBatcher[int](ctx, batching.EventBatcherParams{MaxSize: p.MaxSize, MaxDelay: time.Millisecond, Timer: tm})
	var fetchN, hookN, timerN, inFlight, maxInFlight atomic.Int64
	verifhook.SetPoint(func(name string, args ...any) {
		if name == "batching.reorder.flushed" {
			// which flusher is this? the time-out goroutine is started by NewReorderFetcher
			buf := make([]byte, 2048)
			buf = buf[:runtime.Stack(buf, false)]
			if bytes.Contains(buf, []byte("NewReorderFetcher")) && len(p.TimerUs) > 0 {
				i := timerN.Add(1) - 1
				pause(p.TimerUs[int(i)%len(p.TimerUs)])
				return
			}
			i := hookN.Add(1) - 1
			pause(p.HookUs[int(i)%len(p.HookUs)])
		}
	})
	defer verifhook.SetPoint(nil)
	errc := make(chan error, 16)
	rf := batching.NewReorderFetcher(ctx, batching.NewReorderFetcherParams[int, int]{
		Batcher: batcher,
		FetchBatch: func(ctx context.Context, in []int) ([]int, error) {
			i := fetchN.Add(1) - 1
			n := inFlight.Add(1)
			for {
				m := maxInFlight.Load()
				if n <= m || maxInFlight.CompareAndSwap(m, n) {
					break
				}
			}
			pause(p.FetchUs[int(i)%len(p.FetchUs)])
			inFlight.Add(-1)
			out := make([]int, len(in))
			for j, x := range in {
				out[j] = x + 1000
			}
			return out, nil
		},
		ErrChan:    errc,
		BufferSize: p.BufSize,
	})
	total := 0
	for _, op := range p.Ops {
		if op.Kind == "add" {
			total++
		}
	}
	got := make([]int, 0, total)
	done := make(chan struct{})
	go func() {
		defer close(done)
		for len(got) < total {
			select {
			case r := <-rf.Output:
				got = append(got, r)
				pause(p.ConsumeUs)
			case <-ctx.Done():
				return
			}
		}
	}()
	next, fires := 0, 0
	var fireWG sync.WaitGroup
	defer func() { // let pending time-out tokens be consumed before the context ends
		ch := make(chan struct{})
		go func() { fireWG.Wait(); close(ch) }()
		select {
		case <-ch:
		case <-time.After(2 * time.Second):
		}
	}()
	for _, op := range p.Ops {
		switch op.Kind {
		case "add":
			rf.Add(ctx, next)
			next++
		case "fire":
			if cb, _ := tm.pick(0, false); cb != nil {
				fires++
				fireWG.Add(1)
				go func() { defer fireWG.Done(); cb() }() // delivered to the fetcher's own time-out goroutine
			}
		case "flush":
			rf.Flush(ctx)
		}
	}
	rf.Flush(ctx)
	select {
	case <-done:
	case <-time.After(15 * time.Second):
		cancel()
		<-done
		return hx.Errf("only %d of %d results were emitted within 15s: %v", len(got), total, got)
	}
	for i, r := range got {
		if r != i+1000 {
			return hx.Errf("output %d is the result of input %d: results left the fetcher out of input order (or duplicated): %v", i, r-1000, got)
		}
	}
	select {
	case r := <-rf.Output:
		return hx.Errf("extra result %d after all %d inputs were answered", r, total)
	case <-time.After(200 * time.Microsecond):
	}
	c.LabelIf(timerN.Load() > 0, "timeout-flusher-took-a-batch")
	c.LabelIf(maxInFlight.Load() >= 2, "concurrent-fetches")
	if maxInFlight.Load() >= 2 && timerN.Load() > 0 {
		c.NonTrivial()
	}
	return nil
}

func TestPropReorderFetcher(t *testing.T) {
	hx.Run(t, hx.Spec{Prop: "C20", Persist: true, Rule: "<=40 Add / timer-expiry / Flush operations with batch size 1..4, buffer 0..4, per-fetch latencies 0..400us, pauses injected between Flush and Reserve through the verif hook (0..300us for the adder, 0..1500us for the time-out goroutine), slow or fast consumer; output must be input order, one result per input; non-trivial = >=2 fetches in flight at once and >=1 batch taken by the time-out goroutine"}, genRF, execRF)
}
