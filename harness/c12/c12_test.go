// Package c12 checks C12: a job checkpoint is all-or-nothing and checkpoint
// ids only grow.
package c12

import (
	"errors"
	"fmt"
	"path/filepath"
	"slices"
	"sort"
	"strings"
	"testing"
	"time"

	"google.golang.org/protobuf/proto"
	"pgregory.net/rapid"
	"reduction.dev/reduction/connectors"
	"reduction.dev/reduction/proto/jobpb"
	"reduction.dev/reduction/proto/snapshotpb"
	"reduction.dev/reduction/storage/snapshots"
	"verifharness/coord"
	"verifharness/hx"
)

type op struct {
	Kind  string // create | savepoint | ackop | acksr | restart | newassembly | failwrite (the storage refuses the next write of a job snapshot file)
	Who   int    // index into expected ∪ foreign members
	IDOff int    // 0 = the pending id, -1 stale, +1 future
	State []byte
	N     int
}
type prog struct {
	NOps, NSRs int
	// SharedIDs: operator i and source runner i carry the same node id (ids are
	// configurable and nothing makes them distinct across roles; testrun uses one
	// id for both)
	SharedIDs bool
	// DupDuring: while the acknowledgement that completes a checkpoint is being
	// processed, the same acknowledgement arrives once more (an RPC retry)
	DupDuring bool
	Ops       []op
}

func gen(rt *rapid.T) prog {
	// assemblies of 1..4 members mostly; now and then one around a word size (63..66, 127..130)
	size := rapid.OneOf(rapid.IntRange(1, 4), rapid.IntRange(1, 4), rapid.IntRange(1, 4), rapid.IntRange(1, 4), rapid.IntRange(1, 4), rapid.IntRange(1, 4), rapid.IntRange(1, 4), rapid.IntRange(1, 4), rapid.IntRange(1, 4), rapid.IntRange(1, 4), rapid.IntRange(1, 4),
		rapid.SampledFrom([]int{8, 16, 31, 32, 33, 63, 64, 65, 66, 127, 128, 129, 130}))
	p := prog{NOps: size.Draw(rt, "nops"), NSRs: size.Draw(rt, "nsrs"), SharedIDs: rapid.IntRange(0, 3).Draw(rt, "sharedids") == 0, DupDuring: rapid.IntRange(0, 2).Draw(rt, "dupduring") == 0}
	n := rapid.IntRange(2, 50).Draw(rt, "n")
	for i := 0; i < n; i++ {
		k := rapid.SampledFrom([]string{"create", "create", "savepoint", "ackop", "ackop", "ackop", "ackop", "acksr", "acksr", "acksr", "acksr", "restart", "newassembly", "failwrite", "finish", "finish"}).Draw(rt, "kind")
		if k == "finish" {
			// every member that still has to acknowledge does so, in a drawn interleaving
			order := rapid.Permutation(append(slices.Repeat([]string{"ackop"}, p.NOps), slices.Repeat([]string{"acksr"}, p.NSRs)...)).Draw(rt, "order")
			for _, ak := range order {
				p.Ops = append(p.Ops, op{Kind: ak, State: rapid.SliceOfN(rapid.Byte(), 0, 3).Draw(rt, "state")})
			}
			continue
		}
		p.Ops = append(p.Ops, op{
			Kind:  k,
			Who:   rapid.SampledFrom([]int{0, 0, 0, 0, 1, 1, 2, 3, 4, 5}).Draw(rt, "who"),
			IDOff: rapid.SampledFrom([]int{0, 0, 0, 0, 0, -1, 1}).Draw(rt, "idoff"),
			State: rapid.SliceOfN(rapid.Byte(), 0, 3).Draw(rt, "state"),
		})
	}
	return p
}

type splitter struct {
	connectors.UnimplementedSourceSplitter
	during func() // runs while the store asks the splitter for its state (the last acknowledgement is being processed)
}

func (s *splitter) Checkpoint() []byte {
	if s.during != nil {
		s.during()
	}
	return []byte("splitter-state")
}

type pending struct {
	id        uint64
	ops, srs  map[string]bool // expected -> acknowledged
	opCkpts   map[string]string
	states    [][]byte
	savepoint bool
}

func exec(p prog, c *hx.Case) error {
	loc := coord.NewLoc("/job")
	events := make(chan string, 64)
	errc := make(chan error, 64)
	retained := make(chan []uint64, 64)
	// the retried acknowledgement (see DupDuring)
	var lastAck func() error
	dupResults := make(chan error, 64)
	dups := 0
	during := func() {
		if !p.DupDuring || lastAck == nil {
			return
		}
		again := lastAck
		dups++
		done := make(chan struct{})
		go func() {
			dupResults <- again()
			close(done)
		}()
		select {
		case <-done:
		case <-time.After(300 * time.Microsecond): // (it waits for the store's lock: the first one is still being processed)
		}
	}
	newStore := func() *snapshots.Store {
		s := snapshots.NewStore(&snapshots.NewStoreParams{FileStore: loc, SavepointsPath: "savepoints", CheckpointsPath: "checkpoints",
			CheckpointEvents: events, ErrChan: errc, RetainedCheckpointsUpdated: retained})
		s.RegisterSourceSplitter(&splitter{during: during})
		return s
	}
	store := newStore()
	opIDs := make([]string, p.NOps)
	for i := range opIDs {
		opIDs[i] = fmt.Sprintf("op%d", i)
		// every operator's DKV checkpoint file exists (a savepoint copies what it references)
		loc.Put(fmt.Sprintf("work/op%d/checkpoints", i), []byte(`{"checkpoints":[{"id":1,"wals":[],"levels":[]}]}`))
	}
	srIDs := make([]string, p.NSRs)
	for i := range srIDs {
		srIDs[i] = fmt.Sprintf("sr%d", i)
		if p.SharedIDs && i < len(opIDs) {
			srIDs[i] = opIDs[i]
		}
	}
	// Who indexes the list [members that still have to acknowledge..., members that
	// already did..., a foreign id]: small values make progress, larger ones are
	// duplicates and foreigners.
	member := func(ids []string, acked map[string]bool, who int) string {
		var todo, done []string
		for _, id := range ids {
			if acked != nil && acked[id] {
				done = append(done, id)
			} else {
				todo = append(todo, id)
			}
		}
		all := append(append(todo, done...), fmt.Sprintf("foreign%d", who))
		return all[who%len(all)]
	}
	var pend *pending
	var lastID uint64       // last id handed out by this store instance (or loaded)
	var maxPublished uint64 // largest id ever published
	published := map[uint64]bool{}
	badAcks, restarts, completed, abandoned := 0, 0, 0, 0
	snapPath := func(id uint64) string { return "" }
	_ = snapPath
	// waitPublished waits for the publication event and verifies the file
	failArmed := false
	failedPubs := 0
	verify := func(step int, pd *pending) error {
		if failArmed {
			// The storage refuses the snapshot write: the checkpoint is complete but
			// cannot be persisted, so none of the three parts of its publication may
			// happen: no event, no retention announcement, not used for recovery.
			failArmed = false
			select {
			case <-errc:
			case uri := <-events:
				return hx.Errf("step %d: snapshot %s was announced although the storage refused to write it", step, filepath.Base(uri))
			case <-time.After(10 * time.Second):
				return hx.Errf("step %d: the write of checkpoint %d's snapshot failed but the store reported nothing within 10s", step, pd.id)
			}
			failedPubs++
			time.Sleep(100 * time.Microsecond)
			if cur := store.CurrentCheckpoint(); cur.GetId() == pd.id {
				return hx.Errf("step %d: CurrentCheckpoint is %d although that checkpoint's snapshot could not be written (the newest persisted one is %d)", step, pd.id, maxPublished)
			}
			for {
				select {
				case ids := <-retained:
					for _, id := range ids {
						if id == pd.id {
							return hx.Errf("step %d: checkpoint %d was announced for retention although its snapshot could not be written", step, pd.id)
						}
					}
					continue
				default:
				}
				break
			}
			return nil
		}
		select {
		case uri := <-events:
			data, err := loc.Read(uri)
			if err != nil {
				return hx.Errf("step %d: published snapshot %s unreadable: %v", step, uri, err)
			}
			var jc snapshotpb.JobCheckpoint
			if err := proto.Unmarshal(data, &jc); err != nil {
				return hx.Errf("step %d: published snapshot undecodable: %v", step, err)
			}
			if jc.Id != pd.id {
				return hx.Errf("step %d: published snapshot has id %d, the completed checkpoint is %d", step, jc.Id, pd.id)
			}
			if jc.Id <= maxPublished {
				return hx.Errf("step %d: published checkpoint id %d does not exceed the previously published %d", step, jc.Id, maxPublished)
			}
			seen := map[string]bool{}
			for _, oc := range jc.OperatorCheckpoints {
				if seen[oc.OperatorId] {
					return hx.Errf("step %d: checkpoint %d holds two entries for operator %s", step, jc.Id, oc.OperatorId)
				}
				seen[oc.OperatorId] = true
				if _, ok := pd.ops[oc.OperatorId]; !ok {
					return hx.Errf("step %d: checkpoint %d holds an entry for %s which is not in the assembly", step, jc.Id, oc.OperatorId)
				}
				if oc.CheckpointId != pd.id || oc.DkvFileUri != pd.opCkpts[oc.OperatorId] {
					return hx.Errf("step %d: checkpoint %d entry for %s is (%d,%s), the first acknowledgement was (%d,%s)", step, jc.Id, oc.OperatorId, oc.CheckpointId, oc.DkvFileUri, pd.id, pd.opCkpts[oc.OperatorId])
				}
			}
			if len(seen) != len(pd.ops) {
				return hx.Errf("step %d: checkpoint %d holds %d operator entries for %d operators", step, jc.Id, len(seen), len(pd.ops))
			}
			if len(jc.SourceCheckpoints) != 1 {
				return hx.Errf("step %d: checkpoint %d has %d source checkpoints", step, jc.Id, len(jc.SourceCheckpoints))
			}
			got := make([]string, 0)
			for _, s := range jc.SourceCheckpoints[0].SplitStates {
				got = append(got, string(s))
			}
			want := make([]string, 0)
			for _, s := range pd.states {
				want = append(want, string(s))
			}
			sort.Strings(got)
			sort.Strings(want)
			if strings.Join(got, "|") != strings.Join(want, "|") || len(got) != len(want) {
				return hx.Errf("step %d: checkpoint %d holds split states %q, the runners reported %q (first acknowledgement of each)", step, jc.Id, got, want)
			}
			if string(jc.SourceCheckpoints[0].SplitterState) != "splitter-state" {
				return hx.Errf("step %d: checkpoint %d lacks the splitter state", step, jc.Id)
			}
			published[jc.Id] = true
			maxPublished = jc.Id
			completed++
			if cur := store.CurrentCheckpoint(); cur == nil || cur.Id != jc.Id {
				return hx.Errf("step %d: CurrentCheckpoint is %v after checkpoint %d was published", step, cur.GetId(), jc.Id)
			}
			return nil
		case err := <-errc:
			return hx.Errf("step %d: publishing checkpoint %d failed: %v", step, pd.id, err)
		case <-time.After(10 * time.Second):
			return hx.Errf("step %d: every operator and source runner acknowledged checkpoint %d but it was not published within 10s", step, pd.id)
		}
	}
	noSpurious := func(step int) error {
		select {
		case uri := <-events:
			return hx.Errf("step %d: snapshot %s was published although the pending checkpoint is not complete", step, filepath.Base(uri))
		default:
			return nil
		}
	}
	complete := func(pd *pending) bool {
		for _, a := range pd.ops {
			if !a {
				return false
			}
		}
		for _, a := range pd.srs {
			if !a {
				return false
			}
		}
		return true
	}
	newPending := func(id uint64, sp bool) *pending {
		pd := &pending{id: id, ops: map[string]bool{}, srs: map[string]bool{}, opCkpts: map[string]string{}, savepoint: sp}
		for _, o := range opIDs {
			pd.ops[o] = false
		}
		for _, s := range srIDs {
			pd.srs[s] = false
		}
		return pd
	}
	for step, o := range p.Ops {
		switch o.Kind {
		case "create":
			id, err := store.CreateCheckpoint(opIDs, srIDs)
			if pend != nil {
				if !errors.Is(err, snapshots.ErrCheckpointInProgress) {
					return hx.Errf("step %d: CreateCheckpoint while checkpoint %d is pending returned (%d, %v), want 'checkpoint in progress'", step, pend.id, id, err)
				}
				continue
			}
			if err != nil {
				return hx.Errf("step %d: CreateCheckpoint with nothing pending: %v", step, err)
			}
			if id <= lastID || id <= maxPublished {
				return hx.Errf("step %d: CreateCheckpoint returned id %d after %d (largest published %d)", step, id, lastID, maxPublished)
			}
			lastID = id
			pend = newPending(id, false)
		case "savepoint":
			id, created, err := store.CreateSavepoint(opIDs, srIDs)
			switch {
			case pend != nil && pend.savepoint:
				if err == nil {
					return hx.Errf("step %d: second CreateSavepoint for pending checkpoint %d succeeded", step, pend.id)
				}
			case pend != nil:
				if err != nil || created || id != pend.id {
					return hx.Errf("step %d: CreateSavepoint while checkpoint %d is pending returned (%d, created=%v, %v): it must fold into the pending one", step, pend.id, id, created, err)
				}
				pend.savepoint = true
			default:
				if err != nil || !created || id <= lastID || id <= maxPublished {
					return hx.Errf("step %d: CreateSavepoint with nothing pending returned (%d, created=%v, %v) after id %d", step, id, created, err, lastID)
				}
				lastID = id
				pend = newPending(id, true)
			}
		case "ackop":
			var ackedOps map[string]bool
			if pend != nil {
				ackedOps = pend.ops
			}
			who := member(opIDs, ackedOps, o.Who)
			base := lastID
			if pend != nil {
				base = pend.id
			}
			id := uint64(int64(base) + int64(o.IDOff))
			uri := loc.Root + "/work/" + who + "/checkpoints"
			if pend != nil && id == pend.id {
				if a, expected := pend.ops[who]; expected && !a {
					// the operator's DKV checkpoints file lists the checkpoint it acknowledges
					loc.Put("work/"+who+"/checkpoints", []byte(fmt.Sprintf(`{"checkpoints":[{"id":%d,"wals":[],"levels":[]}]}`, id)))
				}
			}
			st0 := store
			lastAck = func() error {
				return st0.AddOperatorSnapshot(&snapshotpb.OperatorCheckpoint{CheckpointId: id, OperatorId: who, DkvFileUri: uri,
					KeyGroupRange: &snapshotpb.KeyGroupRange{Start: 0, End: 1}})
			}
			err := lastAck()
			if pend == nil || id != pend.id {
				badAcks++
				if err == nil {
					return hx.Errf("step %d: acknowledgement of checkpoint %d by %s was accepted although the pending checkpoint is %v", step, id, who, pend)
				}
				break
			}
			acked, expected := pend.ops[who]
			if !expected || acked {
				badAcks++ // foreign or duplicate: must change nothing
				break
			}
			pend.ops[who] = true
			pend.opCkpts[who] = uri
		case "acksr":
			var ackedSRs map[string]bool
			if pend != nil {
				ackedSRs = pend.srs
			}
			who := member(srIDs, ackedSRs, o.Who)
			base := lastID
			if pend != nil {
				base = pend.id
			}
			id := uint64(int64(base) + int64(o.IDOff))
			states := [][]byte{append([]byte(who+":"), o.State...)}
			st0 := store
			lastAck = func() error {
				return st0.AddSourceSnapshot(&jobpb.SourceRunnerCheckpointCompleteRequest{CheckpointId: id, SourceRunnerId: who, SplitStates: states})
			}
			err := lastAck()
			if pend == nil || id != pend.id {
				badAcks++
				if err == nil {
					return hx.Errf("step %d: source-runner acknowledgement of checkpoint %d by %s was accepted although the pending checkpoint is %v", step, id, who, pend)
				}
				break
			}
			acked, expected := pend.srs[who]
			if !expected {
				badAcks++
				if err == nil {
					return hx.Errf("step %d: acknowledgement by unknown source runner %s was accepted", step, who)
				}
				break
			}
			if acked {
				badAcks++ // duplicate: must change nothing
				break
			}
			pend.srs[who] = true
			pend.states = append(pend.states, states...)
		case "failwrite":
			if !failArmed && o.Who >= 2 {
				loc.FailNextWrites(1, ".snapshot")
				failArmed = true
			}
		case "newassembly":
			// the job lost its assembly and starts a new one (jobs.Job.start): a
			// checkpoint in flight can never complete and is given up; its id stays
			// used, acknowledgements for it that arrive later are foreign
			store.AbandonPendingSnapshot()
			store.RegisterSourceSplitter(&splitter{during: during})
			if pend != nil {
				abandoned++
			}
			pend = nil
			if err := noSpurious(step); err != nil {
				return err
			}
		case "restart":
			// let the asynchronous cleanup of the last publication finish first (C13 covers crashes inside it)
			deadline := time.Now().Add(5 * time.Second)
			for completed > 1 && loc.StartedCount("remove") < completed-1 && time.Now().Before(deadline) {
				time.Sleep(20 * time.Microsecond)
			}
			store = newStore()
			if err := store.LoadCheckpoint(); err != nil {
				return hx.Errf("step %d: LoadCheckpoint: %v", step, err)
			}
			cur := store.CurrentCheckpoint()
			if maxPublished > 0 && (cur == nil || cur.Id != maxPublished) {
				return hx.Errf("step %d: after a restart CurrentCheckpoint is %v, the newest published checkpoint is %d", step, cur.GetId(), maxPublished)
			}
			pend = nil
			lastID = maxPublished
			restarts++
		}
		for drained := false; !drained; {
			select {
			case derr := <-dupResults:
				if derr == nil {
					return hx.Errf("step %d: an acknowledgement that arrived a second time, while the first was completing the checkpoint, was accepted", step)
				}
			default:
				drained = true
			}
		}
		if pend != nil && complete(pend) {
			if err := verify(step, pend); err != nil {
				return err
			}
			pend = nil
		} else if err := noSpurious(step); err != nil {
			return err
		}
	}
	// nothing may be published late
	time.Sleep(300 * time.Microsecond)
	if err := noSpurious(len(p.Ops)); err != nil {
		return err
	}
	for {
		select {
		case <-retained:
			continue
		default:
		}
		break
	}
	if completed >= 1 && badAcks >= 1 {
		c.NonTrivial()
	}
	c.LabelIf(restarts > 0, "restart")
	c.LabelIf(failedPubs > 0, "snapshot-write-refused-by-the-storage")
	c.LabelIf(dups > 0, "acknowledgement-retried-while-it-completes-the-checkpoint")
	c.LabelIf(abandoned > 0, "pending-checkpoint-abandoned-for-a-new-assembly")
	c.LabelIf(p.SharedIDs, "operator-and-source-runner-share-an-id")
	c.LabelIf(completed >= 2, ">=2 published")
	return nil
}

func TestPropStore(t *testing.T) {
	hx.Run(t, hx.Spec{Prop: "C12", Rule: "snapshots.Store over a journaling in-memory StorageLocation with assemblies of 1..4 operators and 1..4 source runners (one case in twelve: 8..130 of either, around the machine word sizes): 2..50 calls of CreateCheckpoint / CreateSavepoint / AddOperatorSnapshot / AddSourceSnapshot (expected, duplicate, foreign senders; pending, stale, future ids) / restart (new Store + LoadCheckpoint) / a storage fault at the next job-snapshot write (then no part of the publication may happen: no event, no retention announcement, CurrentCheckpoint unchanged) / a new assembly (AbandonPendingSnapshot + RegisterSourceSplitter, as jobs.Job.start does; the abandoned id stays used and later acknowledgements for it are foreign); in a quarter of the cases operator i and source runner i share a node id; a model of the pending checkpoint decides when publication must happen (awaited on the store's own CheckpointEvents) and when it must not, and checks the published file entry by entry (one entry per operator, the first acknowledgement's split states of each runner, id strictly above everything published); non-trivial = >=1 checkpoint published and >=1 bad acknowledgement"}, gen, exec)
}
