// Package coord is the coordinator-level harness (L4): a journaling, gating
// locations.StorageLocation and helpers for the snapshot store and the job.
package coord

import (
	"bytes"
	"errors"
	"fmt"
	"io"
	"iter"
	"path/filepath"
	"sort"
	"strings"
	"sync"
	"sync/atomic"

	"reduction.dev/reduction/storage/locations"
)

// LocOp is one storage operation in the order it took effect.
type LocOp struct {
	Kind  string // write | remove | copy
	Path  string
	Data  []byte
	Paths []string // remove: all names of the call
}

// Loc is an in-memory StorageLocation. Paths are kept relative to a root as
// LocalDirectory does ("<root>/<path>" is the URI); listing is in lexical path
// order, like a directory walk. Writes and removes can be held (gated).
type Loc struct {
	Root    string
	mu      sync.Mutex
	cond    *sync.Cond
	files   map[string][]byte
	journal []LocOp
	hold    map[string]bool // "write" / "remove"
	blocked map[string]int
	closed  bool
	waiters []*waiter
	// Started counts calls that have begun (including blocked ones)
	Started      map[string]int
	failWrites   int // upcoming writes (whose path contains failSubstr) that fail with a storage error
	failSubstr   string
	FailedWrites int
}

// FailNextWrites makes the next n writes whose path contains substr fail: the
// call returns an error and nothing is stored.
func (l *Loc) FailNextWrites(n int, substr string) {
	l.mu.Lock()
	l.failWrites, l.failSubstr = n, substr
	l.mu.Unlock()
}

func NewLoc(root string) *Loc {
	l := &Loc{Root: root, files: map[string][]byte{}, hold: map[string]bool{}, blocked: map[string]int{}, Started: map[string]int{}}
	l.cond = sync.NewCond(&l.mu)
	return l
}

func (l *Loc) full(p string) string {
	if strings.HasPrefix(p, l.Root+"/") || p == l.Root {
		return p
	}
	return filepath.Join(l.Root, p)
}

func (l *Loc) SetHold(kind string, on bool) {
	l.mu.Lock()
	l.hold[kind] = on
	l.cond.Broadcast()
	l.mu.Unlock()
}

func (l *Loc) ReleaseAll() {
	l.mu.Lock()
	l.closed = true
	l.cond.Broadcast()
	l.mu.Unlock()
}

// StartedCount is the number of calls of a kind that have begun.
func (l *Loc) StartedCount(kind string) int {
	l.mu.Lock()
	defer l.mu.Unlock()
	return l.Started[kind]
}

func (l *Loc) Blocked(kind string) int {
	l.mu.Lock()
	defer l.mu.Unlock()
	return l.blocked[kind]
}

// ReleaseOne lets exactly one blocked call of the kind through (the one whose
// path contains substr, or any if empty). Reports whether one was released.
func (l *Loc) ReleaseOne(kind, substr string) bool {
	l.mu.Lock()
	defer l.mu.Unlock()
	for i, w := range l.waiters {
		if w.kind == kind && strings.Contains(w.path, substr) && !w.released {
			l.waiters[i].released = true
			l.cond.Broadcast()
			return true
		}
	}
	return false
}

type waiter struct {
	kind, path string
	released   bool
}

func (l *Loc) gate(kind, path string) {
	l.Started[kind]++
	l.cond.Broadcast()
	if !l.hold[kind] || l.closed {
		return
	}
	l.blocked[kind]++
	l.waiters = append(l.waiters, &waiter{kind: kind, path: path})
	w := l.waiters[len(l.waiters)-1]
	for l.hold[kind] && !l.closed && !w.released {
		l.cond.Wait()
	}
	l.blocked[kind]--
	for i, x := range l.waiters {
		if x == w {
			l.waiters = append(l.waiters[:i], l.waiters[i+1:]...)
			break
		}
	}
}

func (l *Loc) Write(path string, data io.Reader) (string, error) {
	b, err := io.ReadAll(data)
	if err != nil {
		return "", err
	}
	p := l.full(path)
	l.mu.Lock()
	l.gate("write", p)
	if l.failWrites > 0 && strings.Contains(p, l.failSubstr) {
		l.failWrites--
		l.FailedWrites++
		l.mu.Unlock()
		return "", errors.New("injected storage write fault")
	}
	l.files[p] = b
	l.journal = append(l.journal, LocOp{Kind: "write", Path: p, Data: b})
	l.cond.Broadcast()
	l.mu.Unlock()
	return p, nil
}

func (l *Loc) Read(path string) ([]byte, error) {
	l.mu.Lock()
	defer l.mu.Unlock()
	b, ok := l.files[l.full(path)]
	if !ok {
		return nil, locations.ErrNotFound
	}
	return bytes.Clone(b), nil
}

func (l *Loc) List() iter.Seq2[string, error] {
	l.mu.Lock()
	paths := make([]string, 0, len(l.files))
	for p := range l.files {
		paths = append(paths, p)
	}
	l.mu.Unlock()
	sort.Strings(paths)
	return func(yield func(string, error) bool) {
		for _, p := range paths {
			if !yield(p, nil) {
				return
			}
		}
	}
}

func (l *Loc) URI(path string) (string, error) {
	l.mu.Lock()
	defer l.mu.Unlock()
	if _, ok := l.files[l.full(path)]; !ok {
		return "", locations.ErrNotFound
	}
	return l.full(path), nil
}

func (l *Loc) Copy(src, dst string) error {
	l.mu.Lock()
	defer l.mu.Unlock()
	b, ok := l.files[l.full(src)]
	if !ok {
		return locations.ErrNotFound
	}
	d := l.full(dst)
	l.gate("copy", d)
	l.files[d] = b
	l.journal = append(l.journal, LocOp{Kind: "copy", Path: d, Data: b})
	l.cond.Broadcast()
	return nil
}

func (l *Loc) Remove(paths ...string) error {
	l.mu.Lock()
	defer l.mu.Unlock()
	l.gate("remove", strings.Join(paths, ","))
	var full []string
	for _, p := range paths {
		full = append(full, l.full(p))
	}
	for _, p := range full {
		delete(l.files, p)
		l.journal = append(l.journal, LocOp{Kind: "remove", Path: p, Paths: full})
	}
	l.cond.Broadcast()
	return nil
}

// Journal returns the operations so far.
func (l *Loc) Journal() []LocOp {
	l.mu.Lock()
	defer l.mu.Unlock()
	return append([]LocOp(nil), l.journal...)
}

func (l *Loc) JournalLen() int {
	l.mu.Lock()
	defer l.mu.Unlock()
	return len(l.journal)
}

// WaitJournal waits until the journal has at least n entries.
func (l *Loc) WaitJournal(n int, wait func(cond func() bool) bool) bool {
	return wait(func() bool { return l.JournalLen() >= n })
}

// At materialises the storage as of the first n operations.
func (l *Loc) At(n int) *Loc {
	j := l.Journal()
	c := NewLoc(l.Root)
	for _, op := range j[:n] {
		switch op.Kind {
		case "write", "copy":
			c.files[op.Path] = op.Data
		case "remove":
			delete(c.files, op.Path)
		}
	}
	return c
}

// Put stores a file without journaling (test fixtures).
func (l *Loc) Put(path string, data []byte) string {
	l.mu.Lock()
	defer l.mu.Unlock()
	l.files[l.full(path)] = data
	return l.full(path)
}

func (l *Loc) Files() []string {
	l.mu.Lock()
	defer l.mu.Unlock()
	var out []string
	for p := range l.files {
		out = append(out, p)
	}
	sort.Strings(out)
	return out
}

func (l *Loc) String() string { return fmt.Sprintf("Loc(%s, %d files)", l.Root, len(l.files)) }

var _ locations.StorageLocation = (*Loc)(nil)

// Client is the storage as one process sees it. After Kill the process is dead:
// an operation of it that is still held at the gate, or that it issues later
// (its goroutines cannot be stopped), never reaches the storage.
type Client struct {
	*Loc
	dead atomic.Bool
}

func (l *Loc) Client() *Client { return &Client{Loc: l} }
func (c *Client) Kill()        { c.dead.Store(true) }

var errDead = fmt.Errorf("process is dead")

func (c *Client) Write(path string, data io.Reader) (string, error) {
	b, err := io.ReadAll(data)
	if err != nil {
		return "", err
	}
	l := c.Loc
	p := l.full(path)
	l.mu.Lock()
	defer l.mu.Unlock()
	if c.dead.Load() {
		return "", errDead
	}
	l.gate("write", p)
	if c.dead.Load() {
		return "", errDead
	}
	l.files[p] = b
	l.journal = append(l.journal, LocOp{Kind: "write", Path: p, Data: b})
	l.cond.Broadcast()
	return p, nil
}

func (c *Client) Remove(paths ...string) error {
	l := c.Loc
	l.mu.Lock()
	defer l.mu.Unlock()
	if c.dead.Load() {
		return errDead
	}
	l.gate("remove", strings.Join(paths, ","))
	if c.dead.Load() {
		return errDead
	}
	var full []string
	for _, p := range paths {
		full = append(full, l.full(p))
	}
	for _, p := range full {
		delete(l.files, p)
		l.journal = append(l.journal, LocOp{Kind: "remove", Path: p, Paths: full})
	}
	l.cond.Broadcast()
	return nil
}

func (c *Client) Copy(src, dst string) error {
	if c.dead.Load() {
		return errDead
	}
	return c.Loc.Copy(src, dst)
}
