// Package c07 checks C07: DKV reads return the latest write at every moment.
package c07

import (
	"testing"

	"pgregory.net/rapid"
	"verifharness/hx"
	"verifharness/lsm"
)

var kinds = []string{"put", "put", "put", "put", "put", "put", "put", "del", "del", "del", "get", "get", "scan", "scan",
	"hold", "hold", "settle", "swapread", "swapread", "checkall"}

func gen(rt *rapid.T) lsm.Program {
	return lsm.Program{
		Cfg:  lsm.GenConfig(rt),
		Keys: lsm.GenKeys(rt),
		Ops:  lsm.GenOps(rt, rapid.IntRange(5, 120).Draw(rt, "n"), kinds),
	}
}

func exec(p lsm.Program, c *hx.Case) error {
	// holds of checkpoint saves are meaningless here
	for i := range p.Ops {
		if p.Ops[i].Kind == "hold" {
			p.Ops[i].A %= 2
		}
	}
	if err := lsm.Exec(p, c, lsm.Mode{}); err != nil {
		return err
	}
	return nil
}

func TestPropReads(t *testing.T) {
	hx.Run(t, hx.Spec{Prop: "C07", Persist: true, Rule: "5..120 put/delete/get/scan operations over 6..16 keys with prefix structure on a database with memtable 48..512 B, target file 48..2048 B, L0 trigger 1..4 and tuned compactor, with flush/compaction table writes held and released by the program and reads parked between their memtable and SST snapshots while a flush swap completes; after every write Get of the key, on reads Get/ScanPrefix, at the end everything, vs a map; non-trivial (see labels) = a read while a flush is in flight or with >=2 L0 tables or a deeper level populated, and an overwrite/delete of an already flushed key"}, gen, exec)
}
