package hx

import (
	"runtime"
	"sort"
	"strings"

	"pgregory.net/rapid"
)

// AdversarialKeys is a pool of byte strings chosen to collide: the empty key,
// keys that are prefixes of one another, 0x00 / 0xff bytes.
var AdversarialKeys = [][]byte{
	{}, []byte("a"), []byte("ab"), []byte("abc"), []byte("abd"), []byte("b"), []byte("ba"),
	{0x00}, {0x00, 0x00}, []byte("a\x00"), []byte("a\x00b"), {0xff}, {0xff, 0xff}, []byte("a\xff"),
	[]byte("ab\x00"), []byte("c"), []byte("ca"), []byte("cab"), {0x01}, {0xfe},
}

// Key draws a key: mostly from the adversarial pool (so that operations collide),
// sometimes arbitrary short bytes.
func Key(rt *rapid.T, label string) []byte {
	if rapid.IntRange(0, 9).Draw(rt, label+"_kind") < 8 {
		return AdversarialKeys[rapid.IntRange(0, len(AdversarialKeys)-1).Draw(rt, label)]
	}
	return rapid.SliceOfN(rapid.Byte(), 0, 6).Draw(rt, label)
}

// KeyFrom draws from the first n keys of the pool.
func KeyFrom(rt *rapid.T, n int, label string) []byte {
	if n > len(AdversarialKeys) {
		n = len(AdversarialKeys)
	}
	return AdversarialKeys[rapid.IntRange(0, n-1).Draw(rt, label)]
}

// Value draws a value, including empty ones.
func Value(rt *rapid.T, label string) []byte {
	return rapid.SliceOfN(rapid.Byte(), 0, 8).Draw(rt, label)
}

// SortedKeys returns the keys of m in ascending byte order.
func SortedKeys[V any](m map[string]V) []string {
	ks := make([]string, 0, len(m))
	for k := range m {
		ks = append(ks, k)
	}
	sort.Strings(ks)
	return ks
}

// Goroutines returns the stacks of the goroutines that have a frame containing
// the substring (all of them for ""), for the log of a stuck case.
func Goroutines(substr string) string {
	buf := make([]byte, 4<<20)
	buf = buf[:runtime.Stack(buf, true)]
	var out []string
	for _, g := range strings.Split(string(buf), "\n\n") {
		if substr == "" || strings.Contains(g, substr) {
			out = append(out, g)
		}
	}
	return strings.Join(out, "\n\n")
}

// WaitTasks calls a database's WaitOnTasks. That helper is an errgroup Wait,
// and the tasks it waits for start further tasks (a flush enqueues a
// compaction): the runtime may panic with "WaitGroup is reused before previous
// Wait has returned". That is a limit of the helper, not of the database; the
// wait is simply repeated.
func WaitTasks(wait func() error) (err error) {
	for i := 0; i < 50; i++ {
		again := false
		func() {
			defer func() {
				if r := recover(); r != nil {
					if s, ok := r.(string); ok && strings.Contains(s, "WaitGroup is reused") {
						again = true
						return
					}
					panic(r)
				}
			}()
			err = wait()
		}()
		if !again {
			return err
		}
		runtime.Gosched()
	}
	return err
}
