package hx

import (
	"sync"
	"time"

	"reduction.dev/reduction/util/verifhook"
)

// DBTracker follows the background work of databases through the verif hook
// points (memtable rotations, flush swaps, compaction loops that came to rest),
// so that a harness can wait for one database to be at rest without relying on
// DB.WaitOnTasks alone. That helper waits on a per-database errgroup, but the
// flush and compaction queues are process-global: a goroutine counted in one
// database's group may run another database's task, whose follow-up task is
// then added to a group that has reached zero while somebody waits on it
// ("sync: WaitGroup misuse: Add called concurrently with Wait", raised in a
// background goroutine, i.e. fatal to the process). Waiting first until the
// database's own tasks have all been seen to finish avoids that; WaitOnTasks is
// then only asked for the tasks' errors.
type DBTracker struct {
	mu                     sync.Mutex
	rotated, swapped, idle map[any]int
}

// TrackDBs installs the tracker as the verif point hook (one per case).
func TrackDBs() *DBTracker {
	t := &DBTracker{rotated: map[any]int{}, swapped: map[any]int{}, idle: map[any]int{}}
	verifhook.SetPoint(func(name string, args ...any) {
		if len(args) == 0 {
			return
		}
		t.mu.Lock()
		switch name {
		case "dkv.rotate":
			t.rotated[args[0]]++
		case "dkv.flush.swapped":
			t.swapped[args[0]]++
		case "dkv.compact.idle":
			t.idle[args[0]]++
		}
		t.mu.Unlock()
	})
	return t
}

func (t *DBTracker) Close() { verifhook.SetPoint(nil) }

func (t *DBTracker) atRest(db any) bool {
	t.mu.Lock()
	defer t.mu.Unlock()
	return t.rotated[db] == t.swapped[db] && t.swapped[db] == t.idle[db]
}

// Wait waits until every flush the database started has swapped its table in
// and every compaction loop behind it has come to rest, then collects the
// tasks' errors through wait (the database's WaitOnTasks). A task that failed
// never reaches its hook point: after 20 s wait is called regardless, and
// returns that error.
func (t *DBTracker) Wait(db any, wait func() error) error {
	deadline := time.Now().Add(20 * time.Second)
	for !t.atRest(db) && time.Now().Before(deadline) {
		time.Sleep(50 * time.Microsecond)
	}
	return WaitTasks(wait)
}
