package hx

import (
	"sync"
	"time"

	"reduction.dev/reduction/clocks"
)

// Clock is clocks.FrozenClock with its time behind a lock: the harness moves
// the time from its own goroutine while the job reads it from others (the
// plain FrozenClock is meant for single-goroutine tests; a torn read of a
// time.Time would be a harness artefact).
type Clock struct {
	*clocks.FrozenClock
	mu      sync.RWMutex
	now     time.Time
	tickers map[string]*clocks.Ticker
}

func NewClock() *Clock {
	f := clocks.NewFrozenClock()
	return &Clock{FrozenClock: f, now: f.Now(), tickers: map[string]*clocks.Ticker{}}
}

func (c *Clock) Now() time.Time {
	c.mu.RLock()
	defer c.mu.RUnlock()
	return c.now
}

func (c *Clock) Advance(d time.Duration) {
	c.mu.Lock()
	c.now = c.now.Add(d)
	c.mu.Unlock()
}

// Every registers the callback like FrozenClock does and remembers its ticker.
func (c *Clock) Every(d time.Duration, fn func(*clocks.EveryContext), label string) *clocks.Ticker {
	t := c.FrozenClock.Every(d, fn, label)
	c.mu.Lock()
	c.tickers[label] = t
	c.mu.Unlock()
	return t
}

// TickEvery runs the callback registered under the label, as a system timer
// would: on the caller's goroutine and without holding the clock's lock
// (FrozenClock.TickEvery holds it for the whole callback, which makes a callback
// that is slow block every Every call made meanwhile - an artefact of the test
// clock, not of the engine).
func (c *Clock) TickEvery(label string) {
	c.mu.RLock()
	t := c.tickers[label]
	c.mu.RUnlock()
	if t == nil {
		panic("hx.Clock has no `every` func registered for label " + label)
	}
	t.Trigger()
}

var _ clocks.Clock = (*Clock)(nil)
