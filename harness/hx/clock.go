package hx

import (
	"sync"
	"time"

	"reduction.dev/reduction/clocks"
)

// Clock is clocks.FrozenClock with its time behind a lock: the harness moves
// the time from its own goroutine while the job reads it from others (the
// plain FrozenClock is meant for single-goroutine tests; a torn read of a
// time.Time would be a harness artefact).
type Clock struct {
	*clocks.FrozenClock
	mu  sync.RWMutex
	now time.Time
}

func NewClock() *Clock {
	f := clocks.NewFrozenClock()
	return &Clock{FrozenClock: f, now: f.Now()}
}

func (c *Clock) Now() time.Time {
	c.mu.RLock()
	defer c.mu.RUnlock()
	return c.now
}

func (c *Clock) Advance(d time.Duration) {
	c.mu.Lock()
	c.now = c.now.Add(d)
	c.mu.Unlock()
}

var _ clocks.Clock = (*Clock)(nil)
