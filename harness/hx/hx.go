// Package hx is the shared scaffolding of the property checks: it runs a
// generated Program through an interpreter, records coverage statistics, keeps
// the smallest failing Program as a replay file, recognises known findings and
// supports replaying a Program from JSON without the property library.
package hx

import (
	"encoding/json"
	"flag"
	"fmt"
	"hash/fnv"
	"io"
	"log/slog"
	"os"
	"path/filepath"
	"runtime/debug"
	"sort"
	"strings"
	"sync"
	"testing"

	"pgregory.net/rapid"
)

func init() {
	// the engine logs through slog's default logger: keep the job logs small
	if os.Getenv("VERIF_LOG") == "" {
		slog.SetDefault(slog.New(slog.NewTextHandler(io.Discard, nil)))
	}
}

var replayFile = flag.String("hx.replay", "", "replay a saved Program (JSON) instead of generating")

// Case is handed to the interpreter so that it can describe what it explored.
type Case struct {
	mu     sync.Mutex // interpreters may label from several goroutines
	nt     bool
	labels map[string]int
	known  []string
	log    []string
}

// NonTrivial marks this case as satisfying the check's non-triviality rule.
func (c *Case) NonTrivial() { c.mu.Lock(); c.nt = true; c.mu.Unlock() }

// Label counts an occurrence of a classification label.
func (c *Case) Label(l string) {
	c.mu.Lock()
	defer c.mu.Unlock()
	if c.labels == nil {
		c.labels = map[string]int{}
	}
	c.labels[l]++
}

// LabelIf is Label under a condition.
func (c *Case) LabelIf(cond bool, l string) {
	if cond {
		c.Label(l)
	}
}

// Logf keeps a line of trace that is printed if the case fails.
func (c *Case) Logf(format string, a ...any) {
	c.mu.Lock()
	defer c.mu.Unlock()
	if len(c.log) < 400 {
		c.log = append(c.log, fmt.Sprintf(format, a...))
	}
}

// Known reports whether the failure signature sig is listed as an open known
// finding; if so the occurrence is counted and the caller should not fail.
func (c *Case) Known(sig string) bool {
	if openFindings()[sig] {
		c.mu.Lock()
		c.known = append(c.known, sig)
		c.mu.Unlock()
		return true
	}
	return false
}

// Inconclusive is returned by interpreters when the run could not decide (for
// example a bounded wait expired): never a violation.
type Inconclusive struct{ Why string }

func (e *Inconclusive) Error() string { return "inconclusive: " + e.Why }

// Spec describes one property test.
type Spec struct {
	Prop string // property id, e.g. "C19"
	Rule string // how cases are generated and what makes one non-trivial
	// Persist writes the current Program to $VERIF_CUR before running it, so a
	// process crash can be attributed. Only for checks whose cases cost >= ~1ms.
	Persist bool
}

type testStats struct {
	Test         string            `json:"test"`
	Prop         string            `json:"prop"`
	Rule         string            `json:"rule"`
	Evals        int               `json:"evals"`
	NTHashes     []uint64          `json:"nt_hashes"`
	Labels       map[string]int    `json:"labels"`
	Samples      []json.RawMessage `json:"samples"`
	Known        map[string]int    `json:"known"`
	Inconclusive int               `json:"inconclusive"`
	Failure      *failure          `json:"failure,omitempty"`
}

type failure struct {
	Replay string `json:"replay"`
	Msg    string `json:"msg"`
}

type replayDoc struct {
	Prop    string          `json:"prop"`
	Test    string          `json:"test"`
	Msg     string          `json:"msg,omitempty"`
	Program json.RawMessage `json:"program"`
}

var (
	statsMu  sync.Mutex
	allStats []*testStats
)

// Run executes a property test: gen draws a Program, exec interprets it
// against the real code and the oracle and returns an error on disagreement.
func Run[P any](t *testing.T, spec Spec, gen func(*rapid.T) P, exec func(P, *Case) error) {
	name := t.Name()
	if *replayFile != "" {
		replay(t, spec, name, exec)
		return
	}
	st := &testStats{Test: name, Prop: spec.Prop, Rule: spec.Rule, Labels: map[string]int{}, Known: map[string]int{}}
	nt := map[uint64]struct{}{}
	var best []byte
	var bestMsg string
	curPath := os.Getenv("VERIF_CUR")
	defer func() {
		for h := range nt {
			st.NTHashes = append(st.NTHashes, h)
		}
		sort.Slice(st.NTHashes, func(i, j int) bool { return st.NTHashes[i] < st.NTHashes[j] })
		if best != nil {
			path := saveReplay(spec.Prop, name, bestMsg, best)
			st.Failure = &failure{Replay: path, Msg: firstLine(bestMsg)}
			fmt.Printf("VERIF-VIOLATION prop=%s test=%s replay=%s msg=%s\n", spec.Prop, name, path, firstLine(bestMsg))
		}
		statsMu.Lock()
		allStats = append(allStats, st)
		statsMu.Unlock()
		flushStats()
	}()
	rapid.Check(t, func(rt *rapid.T) {
		p := gen(rt)
		js, err := json.Marshal(p)
		if err != nil {
			rt.Fatalf("harness: program not serialisable: %v", err)
		}
		if spec.Persist && curPath != "" {
			writeDoc(curPath, spec.Prop, name, "", js)
		}
		c := &Case{}
		err = safeExec(p, c, exec)
		st.Evals++
		for l, n := range c.labels {
			st.Labels[l] += n
		}
		for _, k := range c.known {
			st.Known[k]++
		}
		if inc, ok := err.(*Inconclusive); ok {
			st.Inconclusive++
			st.Labels["inconclusive:"+inc.Why]++
			return
		}
		if c.nt {
			h := fnv.New64a()
			h.Write(js)
			nt[h.Sum64()] = struct{}{}
			if len(st.Samples) < 3 && len(js) < 6000 {
				st.Samples = append(st.Samples, json.RawMessage(js))
			}
		}
		if err != nil {
			if best == nil || len(js) <= len(best) {
				best, bestMsg = js, err.Error()
			}
			rt.Fatalf("%v\n%s", err, strings.Join(c.log, "\n"))
		}
	})
}

func safeExec[P any](p P, c *Case, exec func(P, *Case) error) (err error) {
	defer func() {
		if r := recover(); r != nil {
			err = fmt.Errorf("panic: %v\n%s", r, trimStack(debug.Stack()))
		}
	}()
	return exec(p, c)
}

func trimStack(b []byte) string {
	lines := strings.Split(string(b), "\n")
	if len(lines) > 40 {
		lines = lines[:40]
	}
	return strings.Join(lines, "\n")
}

func replay[P any](t *testing.T, spec Spec, name string, exec func(P, *Case) error) {
	data, err := os.ReadFile(*replayFile)
	if err != nil {
		t.Fatalf("harness: %v", err)
	}
	var doc replayDoc
	if err := json.Unmarshal(data, &doc); err != nil {
		t.Fatalf("harness: bad replay file: %v", err)
	}
	if doc.Test != name {
		t.Skip("replay file is for " + doc.Test)
	}
	var p P
	if err := json.Unmarshal(doc.Program, &p); err != nil {
		t.Fatalf("harness: bad program in replay file: %v", err)
	}
	// Schedule-dependent harnesses may need several attempts; deterministic ones
	// fail on the first.
	attempts := 1
	if os.Getenv("VERIF_REPLAY_ATTEMPTS") != "" {
		fmt.Sscanf(os.Getenv("VERIF_REPLAY_ATTEMPTS"), "%d", &attempts)
	}
	for i := 0; i < attempts; i++ {
		c := &Case{}
		err = safeExec(p, c, exec)
		if _, ok := err.(*Inconclusive); ok {
			fmt.Printf("VERIF-REPLAY prop=%s test=%s result=inconclusive msg=%s\n", spec.Prop, name, firstLine(err.Error()))
			continue
		}
		if err != nil {
			fmt.Printf("VERIF-VIOLATION prop=%s test=%s replay=%s msg=%s\n", spec.Prop, name, *replayFile, firstLine(err.Error()))
			t.Fatalf("%v\n%s", err, strings.Join(c.log, "\n"))
		}
		if len(c.known) > 0 {
			fmt.Printf("VERIF-REPLAY prop=%s test=%s result=known-finding sig=%s\n", spec.Prop, name, strings.Join(c.known, ","))
		}
	}
	fmt.Printf("VERIF-REPLAY prop=%s test=%s result=pass\n", spec.Prop, name)
}

func firstLine(s string) string {
	if i := strings.IndexByte(s, '\n'); i >= 0 {
		s = s[:i]
	}
	if len(s) > 300 {
		s = s[:300]
	}
	return s
}

func root() string {
	if r := os.Getenv("VERIF_ROOT"); r != "" {
		return r
	}
	return "/verif"
}

func writeDoc(path, prop, test, msg string, prog []byte) {
	b, _ := json.Marshal(replayDoc{Prop: prop, Test: test, Msg: msg, Program: prog})
	os.WriteFile(path, b, 0o644)
}

func saveReplay(prop, test, msg string, prog []byte) string {
	dir := os.Getenv("VERIF_REPLAY_DIR")
	if dir == "" {
		dir = filepath.Join(root(), "replays")
	}
	os.MkdirAll(dir, 0o755)
	tag := os.Getenv("VERIF_JOB")
	if tag == "" {
		tag = fmt.Sprintf("pid%d", os.Getpid())
	}
	path := filepath.Join(dir, fmt.Sprintf("%s-%s-%s.json", prop, strings.ReplaceAll(test, "/", "_"), tag))
	writeDoc(path, prop, test, msg, prog)
	return path
}

func flushStats() {
	path := os.Getenv("VERIF_STATS")
	if path == "" {
		return
	}
	statsMu.Lock()
	defer statsMu.Unlock()
	b, _ := json.Marshal(allStats)
	os.WriteFile(path, b, 0o644)
}

var (
	findingsOnce sync.Once
	findingsOpen map[string]bool
)

func openFindings() map[string]bool {
	findingsOnce.Do(func() {
		findingsOpen = map[string]bool{}
		if os.Getenv("VERIF_IGNORE_KNOWN") != "" { // to re-derive a finding's minimal program
			return
		}
		data, err := os.ReadFile(filepath.Join(root(), "known_findings.json"))
		if err != nil {
			return
		}
		var doc struct {
			Findings []struct {
				Status    string `json:"status"`
				Signature string `json:"signature"`
			} `json:"findings"`
		}
		if json.Unmarshal(data, &doc) != nil {
			return
		}
		for _, f := range doc.Findings {
			if f.Status == "open" {
				findingsOpen[f.Signature] = true
			}
		}
	})
	return findingsOpen
}

// Errf builds a violation error.
func Errf(format string, a ...any) error { return fmt.Errorf(format, a...) }

// Fuzz drives the same (gen, exec) pair from Go's coverage-guided fuzzer: the
// fuzzer's bytes become rapid's source of randomness (rapid.MakeFuzz), so the
// mutations are steered by coverage of the code under test. A failing Program
// is also saved as a replay file (the fuzzer's own corpus entry is the byte
// level reproduction).
func Fuzz[P any](f *testing.F, spec Spec, gen func(*rapid.T) P, exec func(P, *Case) error) {
	name := f.Name()
	f.Fuzz(rapid.MakeFuzz(func(rt *rapid.T) {
		p := gen(rt)
		c := &Case{}
		err := safeExec(p, c, exec)
		if _, ok := err.(*Inconclusive); ok || err == nil {
			return
		}
		if js, jerr := json.Marshal(p); jerr == nil {
			path := saveReplay(spec.Prop, strings.Replace(name, "Fuzz", "TestProp", 1), err.Error(), js)
			fmt.Printf("VERIF-VIOLATION prop=%s test=%s replay=%s msg=%s\n", spec.Prop, name, path, firstLine(err.Error()))
		}
		rt.Fatalf("%v\n%s", err, strings.Join(c.log, "\n"))
	}))
}
