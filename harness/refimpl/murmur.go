// Package refimpl holds independent reference implementations used as oracles.
package refimpl

import "encoding/binary"

// Murmur3_32 is MurmurHash3_x86_32 written from the public specification
// (Appleby, SMHasher), independently of util/murmur.
func Murmur3_32(data []byte, seed uint32) uint32 {
	const (
		c1 = 0xcc9e2d51
		c2 = 0x1b873593
	)
	rotl := func(x uint32, r uint) uint32 { return (x << r) | (x >> (32 - r)) }
	h := seed
	nblocks := len(data) / 4
	for i := 0; i < nblocks; i++ {
		k := binary.LittleEndian.Uint32(data[i*4:])
		k *= c1
		k = rotl(k, 15)
		k *= c2
		h ^= k
		h = rotl(h, 13)
		h = h*5 + 0xe6546b64
	}
	tail := data[nblocks*4:]
	var k uint32
	for i := len(tail) - 1; i >= 0; i-- {
		k = (k << 8) | uint32(tail[i])
	}
	if len(tail) > 0 {
		k *= c1
		k = rotl(k, 15)
		k *= c2
		h ^= k
	}
	h ^= uint32(len(data))
	h ^= h >> 16
	h *= 0x85ebca6b
	h ^= h >> 13
	h *= 0xc2b2ae35
	h ^= h >> 16
	return h
}

// KeyGroup is the documented key-to-group mapping: MurmurHash3-32 with seed 0
// modulo the group count.
func KeyGroup(key []byte, groupCount int) int {
	return int(Murmur3_32(key, 0) % uint32(groupCount))
}

// Range is a half-open key-group range.
type Range struct{ Start, End int }

// RangeOf returns the index of the unique range of the reference partition of
// groupCount groups into n contiguous ranges (sizes differing by at most one)
// that holds group g, computed arithmetically rather than by table lookup.
func RangeOf(g, groupCount, n int) int {
	q, r := groupCount/n, groupCount%n
	// the first r ranges hold q+1 groups
	if g < r*(q+1) {
		return g / (q + 1)
	}
	return r + (g-r*(q+1))/q
}
