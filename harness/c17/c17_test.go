// Package c17 checks C17: SST tables and write-ahead logs round-trip exactly.
package c17

import (
	"bytes"
	"encoding/json"
	"fmt"
	"iter"
	"runtime"
	"slices"
	"sort"
	"testing"

	"pgregory.net/rapid"
	"reduction.dev/reduction/dkv/bloom"
	"reduction.dev/reduction/dkv/kv"
	"reduction.dev/reduction/dkv/sst"
	"reduction.dev/reduction/dkv/storage"
	"reduction.dev/reduction/dkv/wal"
	"verifharness/hx"
)

type ent struct {
	K   []byte
	V   []byte
	Del bool
	Seq uint64
}

func (e *ent) Key() []byte { return e.K }
func (e *ent) Value() []byte {
	if e.Del {
		return nil
	}
	return e.V
}
func (e *ent) IsDelete() bool { return e.Del }
func (e *ent) SeqNum() uint64 { return e.Seq }

type tableProg struct {
	Entries []ent    // distinct keys, any order: sorted before use
	Target  int      // WriteRun target size in bytes
	Probes  [][]byte // extra lookup keys / prefixes
	NilKey  bool     // an empty key is passed as a nil slice (a caller that builds keys by appending to nil)
	Gens    int      // the reopened tables are the Gens-th generation: each generation is opened from the document of the previous one (0 = 1)
	Read    bool     // an intermediate generation is read before it is described again
}

func genKeyBytes(rt *rapid.T, label string) []byte {
	switch rapid.IntRange(0, 9).Draw(rt, label+"_kind") {
	case 0, 1, 2:
		return hx.AdversarialKeys[rapid.IntRange(0, len(hx.AdversarialKeys)-1).Draw(rt, label)]
	case 3, 4, 5, 6:
		// two-byte "key group" prefix as the operator writes, including bytes >= 0x80
		b := rapid.SliceOfN(rapid.Byte(), 2, 5).Draw(rt, label)
		return b
	default:
		return rapid.SliceOfN(rapid.Byte(), 0, 4).Draw(rt, label)
	}
}

func genTable(rt *rapid.T) tableProg {
	// sizes straddling the 16-entry index spacing
	n := rapid.OneOf(rapid.IntRange(1, 3), rapid.IntRange(14, 18), rapid.IntRange(30, 34), rapid.IntRange(1, 120)).Draw(rt, "n") // never empty: no caller writes an empty table
	seen := map[string]bool{}
	p := tableProg{}
	for i := 0; i < n*2 && len(p.Entries) < n; i++ {
		k := genKeyBytes(rt, "key")
		if seen[string(k)] {
			continue
		}
		seen[string(k)] = true
		p.Entries = append(p.Entries, ent{
			K:   k,
			V:   rapid.SliceOfN(rapid.Byte(), 0, 24).Draw(rt, "val"),
			Del: rapid.IntRange(0, 4).Draw(rt, "del") == 0,
			Seq: rapid.Uint64Range(0, 1<<40).Draw(rt, "seq"),
		})
	}
	p.Target = rapid.OneOf(rapid.IntRange(1, 60), rapid.IntRange(60, 600), rapid.IntRange(600, 6000)).Draw(rt, "target")
	p.NilKey = rapid.Bool().Draw(rt, "nilkey")
	p.Gens = rapid.SampledFrom([]int{1, 1, 2, 2, 3}).Draw(rt, "gens")
	p.Read = rapid.Bool().Draw(rt, "readbetween")
	np := rapid.IntRange(0, 6).Draw(rt, "nprobes")
	for i := 0; i < np; i++ {
		p.Probes = append(p.Probes, genKeyBytes(rt, "probe"))
	}
	return p
}

func sortedRun(p tableProg) []*ent {
	run := make([]*ent, len(p.Entries))
	for i := range p.Entries {
		e := p.Entries[i]
		if e.Del {
			e.V = nil
		}
		if len(e.K) == 0 {
			e.K = []byte{}
			if p.NilKey {
				e.K = nil
			}
		}
		run[i] = &e
	}
	sort.Slice(run, func(i, j int) bool { return bytes.Compare(run[i].K, run[j].K) < 0 })
	return run
}

func seqOf(run []*ent) iter.Seq[kv.Entry] {
	return func(yield func(kv.Entry) bool) {
		for _, e := range run {
			if !yield(e) {
				return
			}
		}
	}
}

func sameEntry(got kv.Entry, want *ent) error {
	if !bytes.Equal(got.Key(), want.K) || got.IsDelete() != want.Del || got.SeqNum() != want.Seq {
		return hx.Errf("entry (%q del=%v seq=%d), want (%q del=%v seq=%d)", got.Key(), got.IsDelete(), got.SeqNum(), want.K, want.Del, want.Seq)
	}
	if !want.Del && !bytes.Equal(got.Value(), want.V) {
		return hx.Errf("entry %q value %q, want %q", got.Key(), got.Value(), want.V)
	}
	return nil
}

// checkScan compares ScanPrefix(prefix) of a set of tables (in order) with the run.
func checkScan(what string, tables []*sst.Table, run []*ent, prefix []byte) error {
	var want []*ent
	for _, e := range run {
		if bytes.HasPrefix(e.K, prefix) {
			want = append(want, e)
		}
	}
	i := 0
	for _, t := range tables {
		var scanErr error
		for got := range t.ScanPrefix(prefix, &scanErr) {
			if i >= len(want) {
				return hx.Errf("%s ScanPrefix(%q): extra entry %q", what, prefix, got.Key())
			}
			if err := sameEntry(got, want[i]); err != nil {
				return fmt.Errorf("%s ScanPrefix(%q) item %d: %w", what, prefix, i, err)
			}
			i++
		}
		if scanErr != nil {
			return hx.Errf("%s ScanPrefix(%q): %v", what, prefix, scanErr)
		}
	}
	if i != len(want) {
		return hx.Errf("%s ScanPrefix(%q) yielded %d entries, want %d", what, prefix, i, len(want))
	}
	return nil
}

// checkGets looks every key of the run up in the table whose range holds it.
func checkGets(what string, tables []*sst.Table, run []*ent, probes [][]byte) error {
	lookup := func(k []byte) (kv.Entry, error) {
		for _, t := range tables {
			if t.RangeContainsKey(k) {
				return t.Get(k)
			}
		}
		return nil, kv.ErrNotFound
	}
	byKey := map[string]*ent{}
	for _, e := range run {
		byKey[string(e.K)] = e
		got, err := lookup(e.K)
		if err != nil {
			return hx.Errf("%s Get(%q): %v (a present key must be found)", what, e.K, err)
		}
		if err := sameEntry(got, e); err != nil {
			return fmt.Errorf("%s Get(%q): %w", what, e.K, err)
		}
	}
	for _, k := range probes {
		if _, ok := byKey[string(k)]; ok {
			continue
		}
		if got, err := lookup(k); err != kv.ErrNotFound {
			return hx.Errf("%s Get(%q) of an absent key = %v, %v", what, k, got, err)
		}
	}
	return nil
}

func reopen(fs storage.FileSystem, t *sst.Table) (*sst.Table, error) {
	return reopenGens(fs, t, 1, false, nil)
}

// reopenGens opens a table from its document, gens times over: the way a table
// that no compaction replaces travels through a chain of checkpoints and
// restarts. Every generation must describe the table exactly as the first did.
func reopenGens(fs storage.FileSystem, t *sst.Table, gens int, readBetween bool, keep *[]*sst.Table) (*sst.Table, error) {
	first, err := json.Marshal(t.Document())
	if err != nil {
		return nil, err
	}
	cur := t
	for g := 0; g < max(1, gens); g++ {
		// The descriptor travels through JSON exactly as in a checkpoint file.
		data, err := json.Marshal(cur.Document())
		if err != nil {
			return nil, err
		}
		if !bytes.Equal(data, first) {
			return nil, hx.Errf("the document of generation %d of a table is %s, the table was first described as %s", g, data, first)
		}
		var doc sst.TableDocument
		if err := json.Unmarshal(data, &doc); err != nil {
			return nil, err
		}
		cur = sst.NewTableFromDocument(fs, &kv.AllDataOwnership{}, doc)
		if keep != nil {
			// a table object that becomes unreachable removes its file: every
			// generation stays referenced until the case ends, as the checkpoints
			// of a running database keep theirs
			*keep = append(*keep, cur)
		}
		if readBetween && g+1 < gens {
			if _, err := cur.Get(doc.StartKey); err != nil && err != kv.ErrNotFound {
				return nil, hx.Errf("generation %d of a table: Get(start key): %v", g+1, err)
			}
		}
	}
	return cur, nil
}

func execTable(p tableProg, c *hx.Case) error {
	run := sortedRun(p)
	fs := storage.NewMemoryFilesystem()
	tw := sst.NewTableWriter(fs, 0)
	// probes: drawn keys plus neighbours of present keys
	probes := slices.Clone(p.Probes)
	for i, e := range run {
		if i%3 == 0 {
			probes = append(probes, append(slices.Clone(e.K), 0x00), append(slices.Clone(e.K), 0xff))
			if len(e.K) > 0 {
				probes = append(probes, e.K[:len(e.K)-1])
			}
		}
	}
	prefixes := append([][]byte{nil}, p.Probes...)
	for i, e := range run {
		if i%5 == 0 {
			prefixes = append(prefixes, e.K)
			if len(e.K) > 1 {
				prefixes = append(prefixes, e.K[:1])
			}
		}
	}

	// 1. one whole table
	whole, err := tw.Write(seqOf(run))
	if err != nil {
		return hx.Errf("Write: %v", err)
	}
	defer runtime.KeepAlive(whole)
	if len(run) > 0 {
		if d := whole.Document(); !bytes.Equal(d.StartKey, run[0].K) || !bytes.Equal(d.EndKey, run[len(run)-1].K) {
			return hx.Errf("a table of %d entries from %q to %q describes itself as the range %q..%q", len(run), run[0].K, run[len(run)-1].K, d.StartKey, d.EndKey)
		}
	}
	var keep []*sst.Table
	defer func() { runtime.KeepAlive(keep) }()
	sets := []struct {
		name   string
		tables []*sst.Table
	}{{"whole table", []*sst.Table{whole}}}
	if len(run) > 0 {
		ro, err := reopenGens(fs, whole, p.Gens, p.Read, &keep)
		if err != nil {
			return err
		}
		sets = append(sets, struct {
			name   string
			tables []*sst.Table
		}{"whole table reopened from its JSON document", []*sst.Table{ro}})
	}

	// 2. size-bounded run
	parts, err := tw.WriteRun(seqOf(run), uint64(p.Target))
	if err != nil {
		return hx.Errf("WriteRun: %v", err)
	}
	defer runtime.KeepAlive(parts)
	for i := range parts {
		d := parts[i].Document()
		if len(parts) > 1 && d.EntriesSize == 0 {
			return hx.Errf("WriteRun table %d of %d is empty", i, len(parts))
		}
		if i > 0 {
			prev := parts[i-1].Document()
			if bytes.Compare([]byte(prev.EndKey), []byte(d.StartKey)) >= 0 {
				return hx.Errf("WriteRun tables %d and %d overlap or are out of order: end %q, next start %q", i-1, i, prev.EndKey, d.StartKey)
			}
		}
		if bytes.Compare([]byte(d.StartKey), []byte(d.EndKey)) > 0 {
			return hx.Errf("WriteRun table %d start %q > end %q", i, d.StartKey, d.EndKey)
		}
	}
	sets = append(sets, struct {
		name   string
		tables []*sst.Table
	}{fmt.Sprintf("WriteRun(target %d) -> %d tables", p.Target, len(parts)), parts})
	if len(run) > 0 {
		var ro []*sst.Table
		for _, t := range parts {
			r, err := reopenGens(fs, t, p.Gens, p.Read, &keep)
			if err != nil {
				return err
			}
			ro = append(ro, r)
		}
		sets = append(sets, struct {
			name   string
			tables []*sst.Table
		}{"WriteRun tables reopened from their JSON documents", ro})
	}

	for _, s := range sets {
		if err := checkGets(s.name, s.tables, run, probes); err != nil {
			return err
		}
		for _, pf := range prefixes {
			if err := checkScan(s.name, s.tables, run, pf); err != nil {
				return err
			}
		}
	}
	// 3. through a level list (level 1 = sorted, non-overlapping), which is how
	// keys before the first / after the last table are looked up
	if len(run) > 0 {
		ll := sst.NewLevelListOfTables([][]*sst.Table{{}, parts})
		for _, k := range append(slices.Clone(probes), []byte{}, []byte{0xff, 0xff, 0xff, 0xff, 0xff, 0xff}) {
			got, err := ll.Get(k)
			i := slices.IndexFunc(run, func(e *ent) bool { return bytes.Equal(e.K, k) })
			if i < 0 {
				if err != kv.ErrNotFound {
					return hx.Errf("LevelList.Get(%q) of an absent key = %v, %v", k, got, err)
				}
				continue
			}
			if err != nil {
				return hx.Errf("LevelList.Get(%q): %v", k, err)
			}
			if err := sameEntry(got, run[i]); err != nil {
				return fmt.Errorf("LevelList.Get(%q): %w", k, err)
			}
		}
	}
	tomb := slices.ContainsFunc(run, func(e *ent) bool { return e.Del })
	c.LabelIf(len(parts) >= 2, "multi-table")
	c.LabelIf(len(run) > 16, "index>1")
	if len(run) > 16 && tomb && len(parts) >= 2 {
		c.NonTrivial()
	}
	return nil
}

func TestPropTable(t *testing.T) {
	hx.Run(t, hx.Spec{Prop: "C17", Rule: "key-ascending runs of 0..120 entries (sizes clustered at 0-3, 14-18, 30-34) of puts/tombstones with binary keys incl. empty (as an empty or a nil slice) and >=0x80 bytes, written whole and with WriteRun(target 1..6000); Get of every key and neighbours, ScanPrefix of nil/present/absent prefixes, again after reopening each table from its JSON-serialised document (1..3 generations: a reopened table is described and opened again, every generation's document equal to the first), ranges disjoint+ordered, LevelList lookups outside the range; non-trivial = >16 entries, >=1 tombstone and >=2 tables"}, genTable, execTable)
}

// ---------------------------------------------------------------- bloom

type bloomProg struct {
	Size   uint32
	Hashes int
	Keys   [][]byte
}

func genBloom(rt *rapid.T) bloomProg {
	return bloomProg{
		Size:   rapid.Uint32Range(1, 4096).Draw(rt, "size"),
		Hashes: rapid.IntRange(1, 7).Draw(rt, "hashes"),
		Keys:   rapid.SliceOfN(rapid.SliceOfN(rapid.Byte(), 0, 9), 0, 40).Draw(rt, "keys"),
	}
}

func execBloom(p bloomProg, c *hx.Case) error {
	f := bloom.NewFilter(p.Size, p.Hashes)
	for _, k := range p.Keys {
		f.Add(k)
	}
	var buf bytes.Buffer
	f.Encode(&buf)
	g := bloom.Decode(&buf)
	for _, k := range p.Keys {
		if !f.MightHave(k) {
			return hx.Errf("filter(size %d, %d hashes) denies added key %q", p.Size, p.Hashes, k)
		}
		if !g.MightHave(k) {
			return hx.Errf("decoded filter(size %d, %d hashes) denies added key %q", p.Size, p.Hashes, k)
		}
	}
	if len(p.Keys) >= 2 && p.Size%64 != 0 {
		c.NonTrivial()
	}
	return nil
}

func TestPropBloom(t *testing.T) {
	hx.Run(t, hx.Spec{Prop: "C17", Rule: "bloom filters of 1..4096 bits and 1..7 hashes over <=40 binary keys: every added key MightHave, also after Encode/Decode; non-trivial = >=2 keys and a size that is not a multiple of 64"}, genBloom, execBloom)
}

// ---------------------------------------------------------------- WAL

type walOp struct {
	Kind string // put | delete | cut | truncate | rotate
	Key  []byte
	Val  []byte
	Pick int
}
type walProg struct {
	MaxSize uint64
	Ops     []walOp
}

func genWAL(rt *rapid.T) walProg {
	p := walProg{MaxSize: uint64(rapid.IntRange(1, 400).Draw(rt, "max"))}
	n := rapid.IntRange(1, 50).Draw(rt, "n")
	for i := 0; i < n; i++ {
		k := rapid.SampledFrom([]string{"put", "put", "put", "delete", "cut", "truncate", "rotate"}).Draw(rt, "kind")
		op := walOp{Kind: k, Pick: rapid.IntRange(0, 99).Draw(rt, "pick")}
		if k == "put" || k == "delete" {
			op.Key = genKeyBytes(rt, "key")
		}
		if k == "put" {
			op.Val = rapid.SliceOfN(rapid.Byte(), 0, 12).Draw(rt, "val")
		}
		p.Ops = append(p.Ops, op)
	}
	p.Ops = append(p.Ops, walOp{Kind: "rotate"})
	return p
}

type walRec struct {
	seq uint64
	k   []byte
	v   []byte
	del bool
}

func execWAL(p walProg, c *hx.Case) error {
	fs := storage.NewMemoryFilesystem()
	w := wal.NewWriter(fs, 0, p.MaxSize)
	var hist []walRec   // every operation ever appended
	var seq uint64      // last sequence number written
	var cutSeqs []uint64 // sequence numbers at which Cut was called
	var truncated uint64 // largest Truncate argument so far
	rotates, truncsAfterRotate := 0, 0
	for step, op := range p.Ops {
		switch op.Kind {
		case "put":
			seq++
			w.Put(op.Key, op.Val, seq)
			hist = append(hist, walRec{seq, op.Key, op.Val, false})
		case "delete":
			seq++
			w.Delete(op.Key, seq)
			hist = append(hist, walRec{seq, op.Key, nil, true})
		case "cut":
			w.Cut()
			cutSeqs = append(cutSeqs, seq)
		case "truncate":
			// The database truncates up to the sequence number of some entry of
			// a memtable that has been cut: any value <= the latest cut, never decreasing.
			if len(cutSeqs) == 0 {
				continue
			}
			hi := cutSeqs[len(cutSeqs)-1]
			if hi < truncated {
				continue
			}
			arg := truncated + uint64(op.Pick)%(hi-truncated+1)
			if op.Pick%3 == 0 {
				arg = cutSeqs[op.Pick%len(cutSeqs)] // exactly a segment boundary
				if arg < truncated {
					arg = truncated
				}
			}
			w.Truncate(arg)
			truncated = arg
			if rotates > 0 {
				truncsAfterRotate++
			}
		case "rotate":
			prev := w
			w = prev.Rotate(fs)
			rotates++
			if err := prev.Save(); err != nil {
				return hx.Errf("step %d Save: %v", step, err)
			}
			// Every legal start marker: from what has been truncated up to the end.
			for after := truncated; after <= seq; after++ {
				var want []walRec
				for _, r := range hist {
					if r.seq > after {
						want = append(want, r)
					}
				}
				i := 0
				for e, err := range wal.NewReader(fs, prev.Handle(after)).All() {
					if err != nil {
						return hx.Errf("step %d reading saved WAL after=%d: %v", step, after, err)
					}
					if i >= len(want) {
						return hx.Errf("step %d saved WAL after=%d replays extra entry %q", step, after, e.K)
					}
					r := want[i]
					if !bytes.Equal(e.K, r.k) || e.Deleted != r.del || (!r.del && !bytes.Equal(e.V, r.v)) {
						return hx.Errf("step %d saved WAL after=%d entry %d = (%q,%q,del=%v), want seq %d (%q,%q,del=%v)", step, after, i, e.K, e.V, e.Deleted, r.seq, r.k, r.v, r.del)
					}
					i++
				}
				if i != len(want) {
					return hx.Errf("step %d saved WAL (truncated up to %d, last seq %d) read after=%d replays %d operations, want %d: unflushed entries were lost", step, truncated, seq, after, i, len(want))
				}
			}
		}
	}
	c.LabelIf(truncsAfterRotate > 0, "truncate-after-rotate")
	if rotates >= 2 && truncsAfterRotate > 0 {
		c.NonTrivial()
	}
	return nil
}

func TestPropWAL(t *testing.T) {
	hx.Run(t, hx.Spec{Prop: "C17", Rule: "Put/Delete/Cut/Truncate/Rotate sequences (<=50 ops) with contiguous sequence numbers and monotone Truncate arguments <= the latest Cut; every sealed writer is saved and read back with every start marker from the truncation point to the end, expecting exactly the later operations in order; non-trivial = >=2 rotates with >=1 truncate after a rotate"}, genWAL, execWAL)
}

func FuzzTable(f *testing.F) {
	hx.Fuzz(f, hx.Spec{Prop: "C17"}, genTable, execTable)
}

func FuzzWAL(f *testing.F) {
	hx.Fuzz(f, hx.Spec{Prop: "C17"}, genWAL, execWAL)
}
