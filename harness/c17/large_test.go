package c17

import (
	"fmt"
	"runtime"
	"testing"

	"pgregory.net/rapid"
	"reduction.dev/reduction/dkv/kv"
	"reduction.dev/reduction/dkv/sst"
	"reduction.dev/reduction/dkv/storage"
	"verifharness/hx"
)

// ---------------------------------------------------------------- large tables
//
// The size dimension of the round trip: tables of tens of thousands of small
// entries, around the powers of two (the search index holds one offset per 16
// entries, the bloom filter grows with the entry count, offsets pass 64 KiB and
// 1 MiB). Every key is read back by Get from a table re-opened from its
// document, and the whole table by a scan.

type largeProg struct {
	N      int // entries
	ValLen int
	Gens   int
	Step   int // every Step-th key is also looked up on the table as written
}

func genLarge(rt *rapid.T) largeProg {
	n := rapid.OneOf(
		rapid.SampledFrom([]int{4095, 4096, 4097, 16*4096 - 1, 16 * 4096, 16*4096 + 1, 16*4096 + 15, 16*4096 + 16, 16*4096 + 17, 2*16*4096 + 1}),
		rapid.IntRange(30000, 140000),
		rapid.IntRange(1000, 20000),
	).Draw(rt, "n")
	return largeProg{N: n, ValLen: rapid.SampledFrom([]int{0, 1, 9}).Draw(rt, "vallen"), Gens: rapid.IntRange(1, 2).Draw(rt, "gens"), Step: rapid.SampledFrom([]int{97, 1021}).Draw(rt, "step")}
}

func execLarge(p largeProg, c *hx.Case) error {
	fs := storage.NewMemoryFilesystem()
	tw := sst.NewTableWriter(fs, 0)
	run := make([]*ent, p.N)
	for i := range run {
		run[i] = &ent{K: []byte(fmt.Sprintf("%07d", i)), V: make([]byte, p.ValLen), Seq: uint64(i + 1), Del: i%53 == 7}
		if run[i].Del {
			run[i].V = nil
		}
	}
	whole, err := tw.Write(seqOf(run))
	if err != nil {
		return hx.Errf("Write of %d entries: %v", p.N, err)
	}
	defer runtime.KeepAlive(whole)
	var keep []*sst.Table
	defer func() { runtime.KeepAlive(keep) }()
	ro, err := reopenGens(fs, whole, p.Gens, false, &keep)
	if err != nil {
		return err
	}
	get := func(what string, t *sst.Table, e *ent) (err error) {
		defer func() {
			if r := recover(); r != nil {
				err = hx.Errf("%s of %d entries: Get(%q) panicked: %v", what, p.N, e.K, r)
			}
		}()
		got, gerr := t.Get(e.K)
		if gerr != nil {
			return hx.Errf("%s of %d entries: Get(%q): %v (a present key must be found)", what, p.N, e.K, gerr)
		}
		if serr := sameEntry(got, e); serr != nil {
			return fmt.Errorf("%s of %d entries: Get(%q): %w", what, p.N, e.K, serr)
		}
		return nil
	}
	for i, e := range run {
		if err := get("table re-opened from its document", ro, e); err != nil {
			return err
		}
		if i%p.Step == 0 {
			if err := get("table as written", whole, e); err != nil {
				return err
			}
		}
	}
	for _, k := range [][]byte{[]byte("0000000x"), []byte("9999999"), []byte(""), []byte("00"), []byte(fmt.Sprintf("%07d5", p.N/2))} {
		if !ro.RangeContainsKey(k) {
			continue // (callers look a key up only in a table whose range holds it)
		}
		if got, err := ro.Get(k); err != kv.ErrNotFound {
			return hx.Errf("re-opened table of %d entries: Get(%q) of an absent key = %v, %v", p.N, k, got, err)
		}
	}
	if err := checkScan(fmt.Sprintf("re-opened table of %d entries", p.N), []*sst.Table{ro}, run, nil); err != nil {
		return err
	}
	if err := checkScan(fmt.Sprintf("re-opened table of %d entries", p.N), []*sst.Table{ro}, run, []byte(fmt.Sprintf("%05d", (p.N-1)/100))); err != nil {
		return err
	}
	c.LabelIf(p.N > 65536, "more-than-65536-entries")
	if p.N > 4096 {
		c.NonTrivial()
	}
	return nil
}

func TestPropLargeTable(t *testing.T) {
	hx.Run(t, hx.Spec{Prop: "C17", Rule: "tables of 1000..140000 small entries (sizes at and around 4096, 65536 and 131072, where index and filter structures pass their internal unit sizes), one tombstone in 53, written as one table, re-opened through 1..2 generations of documents: Get of every key on the re-opened table and of every 97th/1021st on the table as written, absent keys inside the table's range, a full scan and a prefix scan equal the input; non-trivial = more than 4096 entries"}, genLarge, execLarge)
}
