// Package c14 checks C14: savepoints are self-contained and restore the
// checkpointed job state.
package c14

import (
	"testing"

	"pgregory.net/rapid"
	"verifharness/cluster"
	"verifharness/hx"
)

func gen(rt *rapid.T) cluster.Program {
	p := cluster.GenProgram(rt, []string{"tick", "tick"}, 3)
	p.Standby = 0
	p.Cfg.MemTable = rapid.SampledFrom([]int{128, 256, 256, 1024, 0}).Draw(rt, "memtable2")
	total := 0
	for _, s := range p.Splits {
		total += len(s)
	}
	// the savepoint request, somewhere in the run; sometimes right after a tick
	at := rapid.IntRange(2*p.Cfg.Workers+2, max(2*p.Cfg.Workers+3, total/max(1, p.Cfg.Batch))).Draw(rt, "spat")
	if rapid.Bool().Draw(rt, "fold") {
		p.Faults = append(p.Faults, cluster.Fault{At: at, Kind: "foldtick"})
	}
	p.Faults = append(p.Faults, cluster.Fault{At: at + rapid.IntRange(0, 2).Draw(rt, "gap"), Kind: "savepoint"})
	if rapid.Bool().Draw(rt, "tickafter") {
		// a periodic checkpoint right behind the savepoint: the operators may have
		// completed a newer checkpoint by the time the artifact is assembled
		p.Faults = append(p.Faults, cluster.Fault{At: at + rapid.IntRange(1, 6).Draw(rt, "gap2"), Kind: "tick"})
	}
	p.SlowArtifact = rapid.IntRange(0, 2).Draw(rt, "slowartifact") == 0
	p.FinalN = rapid.SampledFrom([]int{0, 0, 1, 2, 3}).Draw(rt, "finaln")
	p.LatePub = rapid.IntRange(0, 4).Draw(rt, "latepub") == 0
	p.Chain = rapid.SampledFrom([]int{0, 0, 0, 1, 1, 2}).Draw(rt, "chain")
	if p.Chain > 0 && p.Cfg.Workers > 1 && rapid.Bool().Draw(rt, "scalein") {
		// fewer operators than before: each inherits the tables of several
		p.FinalN = rapid.IntRange(1, p.Cfg.Workers-1).Draw(rt, "finaln2")
		p.Cfg.MemTable = rapid.SampledFrom([]int{128, 128, 256}).Draw(rt, "memtable3") // ... and has tables to inherit
	}
	return p
}

func exec(p cluster.Program, c *hx.Case) error {
	st, err := cluster.RunSavepoint(p, c)
	if err != nil {
		return err
	}
	c.LabelIf(st.Folded > 0, "folded-into-pending-checkpoint")
	c.LabelIf(st.DifferentWorkers > 0, "restored-into-different-worker-count")
	c.LabelIf(st.FlushSwaps > 0, "state-in-sst-files")
	c.LabelIf(st.RemainingRecords > 0, "input-remaining-after-savepoint")
	c.LabelIf(p.SlowArtifact, "checkpoint-completes-during-artifact-assembly")
	c.LabelIf(st.LatePubs > 0, "savepoint-publication-starts-after-the-next-checkpoint-completed")
	c.LabelIf(st.Chained > 0, "savepoint-of-a-restored-job")
	c.LabelIf(st.Chained > 0 && st.DifferentWorkers > 0, "savepoint-after-a-change-of-worker-count")
	if st.FilesWiped > 0 && st.RemainingRecords > 0 && (st.FlushSwaps > 0 || st.Folded > 0 || st.DifferentWorkers > 0) {
		c.NonTrivial()
	}
	return nil
}

func TestPropSavepoint(t *testing.T) {
	hx.Run(t, hx.Spec{Prop: "C14", Persist: true, Rule: "the C01 cluster (1..3 workers, DKV memtable 128 B..default so that state sits in SST and WAL files) without failures; HandleCreateSavepoint is called at a drawn inter-node call, in half of the cases right after a checkpoint tick so that it must fold into the pending checkpoint (same id, no second StartCheckpoint); once HandleGetSavepointURI answers, everything is stopped and EVERY file under the working storage and the job's checkpoint directory is deleted; a new job is started with the savepoint URI and the same or another worker count and processes the rest of the input under the exactly-once ordinal oracle; finally a checkpoint of the restored job must hold the per-(key,split) totals; in a fifth of the cases the goroutine publishing the savepoint's checkpoint is held at its start while the next periodic checkpoint is started (the savepoint must still appear); in half of the cases the restored job (whose operators may hold tables inherited from several operators of the first job) is itself saved - right after its deployment or after it processed the rest of the input -, wiped and restored with the same worker count, and that job processes what remains and is checked; non-trivial = files wiped, input remaining after the savepoint, and state in SST files or a folded savepoint or a different worker count"}, gen, exec)
}
