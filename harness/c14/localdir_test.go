package c14

import (
	"bytes"
	"os"
	"path/filepath"
	"sort"
	"strings"
	"testing"

	"pgregory.net/rapid"
	"reduction.dev/reduction/storage/locations"
	"verifharness/hx"
)

// A savepoint is assembled and restored with StorageLocation.Copy. It is only
// self-contained if a copy is a file of its own: whatever is later written to,
// or removed at, the source path must not show through the copy (and the other
// way round). LocalDirectory against a map model.

type ldOp struct {
	Kind string // write | copy | remove | read | list
	A, B int    // path indices
	Data []byte
}
type ldProg struct{ Ops []ldOp }

var ldPaths = []string{"checkpoints/job-a.snapshot", "checkpoints/job-b.snapshot", "savepoints/x/job.savepoint", "savepoints/x/dkv/op/000000.wal", "work/op/000000.wal", "work/op/checkpoints", "top"}

func genLD(rt *rapid.T) ldProg {
	n := rapid.IntRange(2, 14).Draw(rt, "n")
	p := ldProg{}
	for i := 0; i < n; i++ {
		p.Ops = append(p.Ops, ldOp{
			Kind: rapid.SampledFrom([]string{"write", "write", "write", "copy", "copy", "copy", "remove", "read", "list"}).Draw(rt, "kind"),
			A:    rapid.IntRange(0, len(ldPaths)-1).Draw(rt, "a"),
			B:    rapid.IntRange(0, len(ldPaths)-1).Draw(rt, "b"),
			Data: rapid.SliceOfN(rapid.Byte(), 0, 12).Draw(rt, "data"),
		})
	}
	return p
}

func execLD(p ldProg, c *hx.Case) error {
	dir, err := os.MkdirTemp(os.Getenv("VERIF_SCRATCH"), "c14ld")
	if err != nil {
		return &hx.Inconclusive{Why: "no scratch directory"}
	}
	defer os.RemoveAll(dir)
	ld := locations.NewLocalDirectory(dir)
	model := map[string][]byte{}
	copies, rewrittenAfterCopy := 0, 0
	copiedFrom := map[string]bool{}
	check := func(step int, what string) error {
		for _, path := range ldPaths {
			got, rerr := ld.Read(path)
			want, had := model[path]
			switch {
			case had && rerr != nil:
				return hx.Errf("step %d (%s): Read(%s): %v, the model holds %q", step, what, path, rerr, want)
			case had && !bytes.Equal(got, want):
				return hx.Errf("step %d (%s): %s holds %q, the model holds %q (a copy is a file of its own: later writes to the other path must not show through)", step, what, path, got, want)
			case !had && rerr == nil:
				return hx.Errf("step %d (%s): %s exists with %q, the model does not have it", step, what, path, got)
			}
		}
		var listed []string
		for f, lerr := range ld.List() {
			if lerr != nil {
				return hx.Errf("step %d (%s): List: %v", step, what, lerr)
			}
			listed = append(listed, strings.TrimPrefix(f, dir+"/"))
		}
		sort.Strings(listed)
		var want []string
		for path := range model {
			want = append(want, path)
		}
		sort.Strings(want)
		if strings.Join(listed, "|") != strings.Join(want, "|") {
			return hx.Errf("step %d (%s): List yields %v, the model holds %v", step, what, listed, want)
		}
		return nil
	}
	for step, o := range p.Ops {
		a, b := ldPaths[o.A], ldPaths[o.B]
		switch o.Kind {
		case "write":
			if _, err := ld.Write(a, bytes.NewReader(o.Data)); err != nil {
				return hx.Errf("step %d: Write(%s): %v", step, a, err)
			}
			if copiedFrom[a] {
				rewrittenAfterCopy++
			}
			model[a] = append([]byte{}, o.Data...)
		case "copy":
			if a == b {
				continue
			}
			cerr := ld.Copy(filepath.Join(dir, a), b)
			if _, had := model[a]; !had {
				if cerr == nil {
					return hx.Errf("step %d: Copy of the missing %s succeeded", step, a)
				}
				continue
			}
			if cerr != nil {
				return hx.Errf("step %d: Copy(%s -> %s): %v", step, a, b, cerr)
			}
			model[b] = append([]byte{}, model[a]...)
			copies++
			copiedFrom[a], copiedFrom[b] = true, true
		case "remove":
			if err := ld.Remove(a); err != nil {
				return hx.Errf("step %d: Remove(%s): %v", step, a, err)
			}
			delete(model, a)
		}
		if err := check(step, o.Kind); err != nil {
			return err
		}
	}
	if copies > 0 && rewrittenAfterCopy > 0 {
		c.NonTrivial()
	}
	return nil
}

func TestPropLocalDirectory(t *testing.T) {
	hx.Run(t, hx.Spec{Prop: "C14", Rule: "locations.LocalDirectory (in a scratch directory) against a map model: 2..14 Write/Copy/Remove/Read/List over 7 paths in nested directories; after every step every path must hold exactly the model's bytes and List must yield exactly the model's paths - in particular a copy is a file of its own, which later writes to (or removal of) the other path do not reach; non-trivial = >=1 copy and a later write to a path that took part in one"}, genLD, execLD)
}
