// Package c16 checks C16: source positions match the barrier cut, every split
// has exactly one reader, and Kinesis child shards wait for their parents, also
// across a checkpoint/restore of the splitter.
package c16

import (
	"context"
	"fmt"
	"math/big"
	"net/http"
	"net/http/httptest"
	"slices"
	"sort"
	"sync"
	"testing"
	"time"

	awskinesis "github.com/aws/aws-sdk-go-v2/service/kinesis"
	"pgregory.net/rapid"
	"reduction.dev/reduction/connectors"
	"reduction.dev/reduction/connectors/kinesis"
	"reduction.dev/reduction/connectors/kinesis/kinesisfake"
	"reduction.dev/reduction/proto/snapshotpb"
	"reduction.dev/reduction/proto/workerpb"
	"verifharness/cluster"
	"verifharness/hx"
)

// ---------------------------------------------------------------- positions vs barrier cut (real cluster)

func genPos(rt *rapid.T) cluster.Program {
	return cluster.GenProgram(rt, []string{"tick", "tick", "tick", "tick", "kill", "killjob"}, 5)
}

func execPos(p cluster.Program, c *hx.Case) error {
	st, err := cluster.Run(p, c)
	if err != nil {
		return err
	}
	c.LabelIf(st.ResumedSplits > 0, "split-resumed-from-checkpointed-position")
	c.LabelIf(st.PubDuringRecovery > 0, "checkpoint-published-while-the-recovery-was-being-deployed")
	c.LabelIf(st.SlowAssigns > 0, "slow-split-assignment")
	c.LabelIf(st.BarriersBothSides > 0, "barrier-with-records-on-both-sides")
	if st.Checkpoints >= 2 && (st.ResumedSplits > 0 || st.BarriersBothSides > 0) {
		c.NonTrivial()
	}
	return nil
}

func TestPropPositions(t *testing.T) {
	hx.Run(t, hx.Spec{Prop: "C16", Persist: true, Rule: "the C01 cluster with checkpoint ticks, worker kills and job restarts at drawn call counts; every operator's incoming stream and every SourceRunnerCheckpointComplete are recorded: for each acknowledgement of checkpoint N no record at/after the reported position of a split precedes barrier N in any stream from that runner and none before it follows (within one deployment); within one splitter start every split is taken over by at most one reader, at exactly the position of the restored checkpoint, which equals what its runner reported; non-trivial = >=2 checkpoints and a split resumed from a non-zero position or a barrier with records on both sides"}, genPos, execPos)
}

// ---------------------------------------------------------------- split tracker vs lineage model

type stOp struct {
	Kind string // add | assign | finish | restore
	A, B int
}
type stProg struct{ Ops []stOp }

func genST(rt *rapid.T) stProg {
	n := rapid.IntRange(2, 40).Draw(rt, "n")
	p := stProg{}
	for i := 0; i < n; i++ {
		p.Ops = append(p.Ops, stOp{Kind: rapid.SampledFrom([]string{"add", "add", "assign", "assign", "finish", "finish", "restore"}).Draw(rt, "kind"),
			A: rapid.IntRange(0, 7).Draw(rt, "a"), B: rapid.IntRange(0, 7).Draw(rt, "b")})
	}
	return p
}

type mshard struct {
	id       string
	parents  []string
	assigned bool
	finished bool
	known    bool
}

func execST(p stProg, c *hx.Case) error {
	tr := kinesis.NewSplitTracker()
	var shards []*mshard
	byID := map[string]*mshard{}
	restores, children := 0, 0
	mk := func(parents []string) *mshard {
		s := &mshard{id: fmt.Sprintf("shardId-%012d", len(shards)), parents: parents}
		shards = append(shards, s)
		byID[s.id] = s
		return s
	}
	toShard := func(s *mshard) kinesis.SourceSplitterShard {
		return kinesis.SourceSplitterShard{ShardID: s.id, ParentIDs: s.parents}
	}
	for step, o := range p.Ops {
		switch o.Kind {
		case "add":
			// a new root, a split of an existing shard (two children), or a merge
			var parents []string
			if len(shards) > 0 && o.A%3 != 0 {
				parents = []string{shards[o.A%len(shards)].id}
				if o.B%3 == 0 && len(shards) > 1 {
					other := shards[o.B%len(shards)].id
					if other != parents[0] {
						parents = append(parents, other)
					}
				}
				children++
			}
			s := mk(parents)
			s.known = true
			tr.AddSplits([]kinesis.SourceSplitterShard{toShard(s)})
		case "assign":
			avail := tr.AvailableSplits()
			for _, a := range avail {
				m := byID[a.ShardID]
				if m == nil || !m.known {
					return hx.Errf("step %d: AvailableSplits offers unknown shard %s", step, a.ShardID)
				}
				if m.assigned {
					return hx.Errf("step %d: AvailableSplits offers %s which is already assigned", step, m.id)
				}
				if m.finished {
					return hx.Errf("step %d: AvailableSplits offers %s which was finished", step, m.id)
				}
				for _, pid := range m.parents {
					if pm := byID[pid]; pm != nil && pm.known && !pm.finished {
						return hx.Errf("step %d: child shard %s is offered although its parent %s is not finished", step, m.id, pid)
					}
				}
			}
			// everything that may be read must be offered
			for _, m := range shards {
				if !m.known || m.assigned || m.finished {
					continue
				}
				blocked := false
				for _, pid := range m.parents {
					if pm := byID[pid]; pm != nil && pm.known && !pm.finished {
						blocked = true
					}
				}
				if !blocked && !slices.ContainsFunc(avail, func(a kinesis.SourceSplitterShard) bool { return a.ShardID == m.id }) {
					return hx.Errf("step %d: shard %s is neither assigned, finished nor blocked by a parent, but it is not offered", step, m.id)
				}
			}
			tr.TrackAssigned(avail)
			for _, a := range avail {
				byID[a.ShardID].assigned = true
			}
		case "finish":
			var as []*mshard
			for _, m := range shards {
				if m.assigned && !m.finished {
					as = append(as, m)
				}
			}
			if len(as) == 0 {
				continue
			}
			m := as[o.A%len(as)]
			tr.RemoveSplits([]string{m.id})
			m.finished, m.assigned = true, false
		case "restore":
			// checkpoint = the assigned shards + the last assigned id; a fresh tracker
			// loads them unassigned and rediscovers everything listed after that id
			assigned := tr.AssignedSplits()
			last := tr.LastAssignedSplitID
			var want []string
			for _, m := range shards {
				if m.assigned && !m.finished {
					want = append(want, m.id)
				}
			}
			var got []string
			for _, a := range assigned {
				got = append(got, a.ShardID)
			}
			sort.Strings(got)
			sort.Strings(want)
			if !slices.Equal(got, want) && !(len(got) == 0 && len(want) == 0) {
				return hx.Errf("step %d: AssignedSplits() = %v, the assigned unfinished shards are %v", step, got, want)
			}
			tr = kinesis.NewSplitTracker()
			tr.LoadSplits(assigned, last)
			for _, m := range shards {
				m.known = false
				if m.assigned && !m.finished {
					m.known, m.assigned = true, false
				}
			}
			// discovery: everything the stream lists after the last assigned id
			var disc []kinesis.SourceSplitterShard
			for _, m := range shards {
				if m.id > last {
					disc = append(disc, toShard(m))
					if !m.finished {
						m.known = true
					} else {
						m.known = true // listed again; a finished (closed) shard is still listed by the stream
						m.finished = false
					}
				}
			}
			tr.AddSplits(disc)
			restores++
		}
	}
	if restores > 0 && children > 0 {
		c.NonTrivial()
	}
	return nil
}

func TestPropSplitTracker(t *testing.T) {
	hx.Run(t, hx.Spec{Prop: "C16", Rule: "kinesis.SplitTracker: 2..40 operations of adding shards (roots, split children, merge children), taking and tracking AvailableSplits, finishing assigned shards and restoring into a fresh tracker from AssignedSplits + LastAssignedSplitID followed by rediscovery; AvailableSplits must offer exactly the known shards that are unassigned, unfinished and have no known unfinished parent; non-trivial = >=1 restore and >=1 child shard"}, genST, execST)
}

// ---------------------------------------------------------------- the real splitter against the fake Kinesis

type ksOp struct {
	Kind string // split | merge | finish | restore | wait
	A, B int
}
type ksProg struct {
	Shards  int
	Runners int
	Ops     []ksOp
}

func genKS(rt *rapid.T) ksProg {
	p := ksProg{Shards: rapid.IntRange(1, 3).Draw(rt, "shards"), Runners: rapid.IntRange(1, 3).Draw(rt, "runners")}
	n := rapid.IntRange(1, 10).Draw(rt, "n")
	for i := 0; i < n; i++ {
		p.Ops = append(p.Ops, ksOp{Kind: rapid.SampledFrom([]string{"split", "merge", "finish", "finish", "restore", "wait"}).Draw(rt, "kind"),
			A: rapid.IntRange(0, 9).Draw(rt, "a"), B: rapid.IntRange(0, 9).Draw(rt, "b")})
	}
	return p
}

var (
	fakeOnce   sync.Once
	fakeServer *httptest.Server
	streamSeq  int
)

type kshard struct {
	id           string
	parents      []string
	closed       bool // split or merged away: its readers will reach the end
	finished     bool // a reader reported it finished
	assigned     int  // times handed out since the last restore
	everAssigned bool
}

func execKS(p ksProg, c *hx.Case) (err error) {
	fakeOnce.Do(func() {
		fakeServer, _ = kinesisfake.StartFake()
		// The repository's fake keeps its streams in plain maps and serves every
		// request on its own goroutine: a ListShards of the splitter's discovery loop
		// beside a split or merge issued by this harness is a fatal "concurrent map
		// read and map write" inside the fake. Requests are served one at a time.
		inner := fakeServer.Config.Handler
		var fakeMu sync.Mutex
		fakeServer.Config.Handler = http.HandlerFunc(func(w http.ResponseWriter, r *http.Request) {
			fakeMu.Lock()
			defer fakeMu.Unlock()
			inner.ServeHTTP(w, r)
		})
	})
	client := kinesis.NewLocalClient(fakeServer.URL)
	ctx := context.Background()
	streamSeq++
	name := fmt.Sprintf("verif-%d-%d", time.Now().UnixNano()%1_000_000, streamSeq)
	if _, err := client.CreateStream(ctx, &awskinesis.CreateStreamInput{StreamName: &name, ShardCount: ptrInt32(int32(p.Shards))}); err != nil {
		return &hx.Inconclusive{Why: "fake kinesis unavailable: " + err.Error()}
	}
	ds, err := client.DescribeStream(ctx, &awskinesis.DescribeStreamInput{StreamName: &name})
	if err != nil {
		return &hx.Inconclusive{Why: "fake kinesis unavailable: " + err.Error()}
	}
	arn := *ds.StreamDescription.StreamARN
	list := func() ([]*kshard, error) {
		out, err := client.ListShards(ctx, &awskinesis.ListShardsInput{StreamName: &name})
		if err != nil {
			return nil, err
		}
		var r []*kshard
		for _, s := range out.Shards {
			k := &kshard{id: *s.ShardId}
			if s.ParentShardId != nil && *s.ParentShardId != "" {
				k.parents = append(k.parents, *s.ParentShardId)
			}
			if s.AdjacentParentShardId != nil && *s.AdjacentParentShardId != "" {
				k.parents = append(k.parents, *s.AdjacentParentShardId)
			}
			r = append(r, k)
		}
		return r, nil
	}
	model := map[string]*kshard{}
	sync2 := func() error {
		l, err := list()
		if err != nil {
			return &hx.Inconclusive{Why: err.Error()}
		}
		for _, s := range l {
			if model[s.id] == nil {
				model[s.id] = s
			}
		}
		return nil
	}
	if err := sync2(); err != nil {
		return err
	}
	runners := []string{"r0", "r1", "r2"}[:p.Runners]
	var mu sync.Mutex
	var viol error
	cursors := map[string]string{}
	incarnation := 0 // of the splitter: a closed one belongs to a job that is gone, what it still says reaches nobody
	onAssign := func(inc int, as map[string][]*workerpb.SourceSplit) {
		mu.Lock()
		defer mu.Unlock()
		if inc != incarnation {
			return
		}
		for runner, splits := range as {
			if !slices.Contains(runners, runner) {
				viol = hx.Errf("shards were assigned to unknown runner %q", runner)
			}
			for _, sp := range splits {
				m := model[sp.SplitId]
				if m == nil {
					// created by a split/merge the model has not listed yet
					m = &kshard{id: sp.SplitId}
					model[sp.SplitId] = m
				}
				m.assigned++
				m.everAssigned = true
				if m.assigned > 1 && viol == nil {
					viol = hx.Errf("shard %s was handed out %d times by one splitter incarnation", sp.SplitId, m.assigned)
				}
				if m.finished && viol == nil {
					viol = hx.Errf("shard %s was handed out again after its reader reported it finished", sp.SplitId)
				}
				for _, pid := range m.parents {
					if pm := model[pid]; pm != nil && !pm.finished && viol == nil {
						viol = hx.Errf("child shard %s was handed out while its parent %s is not finished", sp.SplitId, pid)
					}
				}
			}
		}
	}
	start := func(ck *snapshotpb.SourceCheckpoint) (connectors.SourceSplitter, error) {
		cfg := kinesis.SourceConfig{StreamARN: arn, Client: client, ShardDiscoveryInterval: time.Millisecond}
		errc := make(chan error, 8)
		mu.Lock()
		incarnation++
		mine := incarnation
		mu.Unlock()
		sp := cfg.NewSourceSplitter(runners, connectors.SourceSplitterHooks{AssignSplits: func(as map[string][]*workerpb.SourceSplit) { onAssign(mine, as) }}, errc)
		var serr error
		func() {
			defer func() {
				if r := recover(); r != nil {
					serr = hx.Errf("starting the splitter from a checkpoint panicked: %v", r)
				}
			}()
			serr = sp.Start(ck)
		}()
		return sp, serr
	}
	sp, err := start(nil)
	if err != nil {
		return hx.Errf("Start: %v", err)
	}
	defer func() { sp.Close() }()
	settle := func() { time.Sleep(6 * time.Millisecond) } // several discovery intervals
	settle()
	splits, merges, restores, restoreBetween := 0, 0, 0, 0
	for step, o := range p.Ops {
		mu.Lock()
		var open []*kshard
		for _, m := range model {
			if !m.closed {
				open = append(open, m)
			}
		}
		sort.Slice(open, func(i, j int) bool { return open[i].id < open[j].id })
		var reading []*kshard
		for _, m := range model {
			if m.assigned > 0 && !m.finished {
				reading = append(reading, m)
			}
		}
		sort.Slice(reading, func(i, j int) bool { return reading[i].id < reading[j].id })
		mu.Unlock()
		switch o.Kind {
		case "split":
			if len(open) == 0 {
				continue
			}
			target := open[o.A%len(open)]
			out, lerr := client.ListShards(ctx, &awskinesis.ListShardsInput{StreamName: &name})
			if lerr != nil {
				return &hx.Inconclusive{Why: lerr.Error()}
			}
			mid := ""
			for _, s := range out.Shards {
				if *s.ShardId == target.id {
					mid = midpoint(*s.HashKeyRange.StartingHashKey, *s.HashKeyRange.EndingHashKey)
				}
			}
			if mid == "" {
				continue
			}
			if _, err := client.SplitShard(ctx, &awskinesis.SplitShardInput{StreamName: &name, ShardToSplit: &target.id, NewStartingHashKey: &mid}); err != nil {
				continue // too narrow to split
			}
			mu.Lock()
			target.closed = true
			mu.Unlock()
			splits++
		case "merge":
			if len(open) < 2 {
				continue
			}
			a, b := open[o.A%(len(open)-1)], open[o.A%(len(open)-1)+1]
			if _, err := client.MergeShards(ctx, &awskinesis.MergeShardsInput{StreamName: &name, ShardToMerge: &a.id, AdjacentShardToMerge: &b.id}); err != nil {
				continue
			}
			mu.Lock()
			a.closed, b.closed = true, true
			mu.Unlock()
			merges++
		case "finish":
			// a reader reaches the end of a closed shard it was reading
			var cands []*kshard
			for _, m := range reading {
				if m.closed {
					cands = append(cands, m)
				}
			}
			if len(cands) == 0 {
				continue
			}
			m := cands[o.A%len(cands)]
			mu.Lock()
			m.finished = true
			mu.Unlock()
			sp.NotifySplitsFinished(runners[0], []string{m.id})
		case "restore":
			mu.Lock()
			if err := sync2locked(model, list); err != nil {
				mu.Unlock()
				return err
			}
			pendingChild := false
			for _, m := range model {
				for _, pid := range m.parents {
					if pm := model[pid]; pm != nil && pm.finished && m.assigned == 0 {
						pendingChild = true
					}
				}
			}
			mu.Unlock()
			// Open known finding, excluded by construction: the checkpoint stores only the
			// assigned shards and one "last assigned" marker, so a shard that exists but is
			// still blocked by an unfinished parent, with an id below the marker, is
			// forgotten by the restore (its children are then handed out before it).
			mu.Lock()
			maxAssigned, forgotten := "", false
			for _, m := range model {
				if m.everAssigned && m.id > maxAssigned {
					maxAssigned = m.id
				}
			}
			for _, m := range model {
				if !m.everAssigned && m.id < maxAssigned {
					forgotten = true
				}
			}
			mu.Unlock()
			if forgotten && c.Known("C16-kinesis-restore-forgets-blocked-shards") {
				c.Label("avoided:C16-kinesis-restore-forgets-blocked-shards")
				continue
			}
			state := sp.Checkpoint()
			sp.Close()
			time.Sleep(2 * time.Millisecond)
			mu.Lock()
			var want []string
			for _, m := range model {
				if m.assigned > 0 && !m.finished {
					want = append(want, m.id)
				}
				m.assigned = 0
			}
			var states [][]byte
			for id, cur := range cursors {
				_ = id
				_ = cur
			}
			mu.Unlock()
			sp, err = start(&snapshotpb.SourceCheckpoint{SplitterState: state, SplitStates: states})
			if err != nil {
				return hx.Errf("step %d: restoring the splitter from its checkpoint: %v", step, err)
			}
			restores++
			if pendingChild {
				restoreBetween++
			}
			settle()
			mu.Lock()
			for _, id := range want {
				if model[id].assigned == 0 && viol == nil {
					viol = hx.Errf("step %d: shard %s was assigned and unfinished at the checkpoint but is not handed out after the restore", step, id)
				}
			}
			mu.Unlock()
		case "wait":
		}
		settle()
		mu.Lock()
		if err := sync2locked(model, list); err != nil {
			mu.Unlock()
			return err
		}
		v := viol
		mu.Unlock()
		if v != nil {
			return fmt.Errorf("step %d (%s): %w", step, o.Kind, v)
		}
	}
	// nothing is lost: every shard whose parents are all finished has been handed out
	settle()
	settle()
	mu.Lock()
	defer mu.Unlock()
	if viol != nil {
		return viol
	}
	for _, m := range model {
		blocked := false
		for _, pid := range m.parents {
			if pm := model[pid]; pm != nil && !pm.finished {
				blocked = true
			}
		}
		if !blocked && !m.everAssigned {
			return hx.Errf("shard %s exists, all its parents are finished, but it was never handed out", m.id)
		}
	}
	c.LabelIf(restoreBetween > 0, "restore-between-parent-finish-and-child-assignment")
	if splits+merges > 0 && restores > 0 {
		c.NonTrivial()
	}
	return nil
}

func sync2locked(model map[string]*kshard, list func() ([]*kshard, error)) error {
	l, err := list()
	if err != nil {
		return &hx.Inconclusive{Why: err.Error()}
	}
	for _, s := range l {
		if m := model[s.id]; m == nil {
			model[s.id] = s
		} else if len(m.parents) == 0 {
			m.parents = s.parents
		}
	}
	return nil
}

func TestPropKinesisSplitter(t *testing.T) {
	hx.Run(t, hx.Spec{Prop: "C16", Persist: true, Rule: "the real kinesis.SourceSplitter (discovery interval 1 ms) against the repository's fake Kinesis over a loopback httptest server: 1..3 initial shards, 1..3 runners, 1..10 operations of SplitShard, MergeShards, a reader finishing a closed shard, Checkpoint() -> Close -> a new splitter Start(checkpoint); over the whole history, judged at every AssignSplits call: a child shard is never handed out while a parent is unfinished, no shard is handed out twice by one incarnation or again after it was finished, shards assigned at a checkpoint are handed out again after the restore, and finally every shard whose parents are finished has been handed out; non-trivial = >=1 split or merge and >=1 restore"}, genKS, execKS)
}

func ptrInt32(v int32) *int32 { return &v }

// midpoint of two decimal hash keys.
func midpoint(a, b string) string {
	x, _ := new(big.Int).SetString(a, 10)
	y, _ := new(big.Int).SetString(b, 10)
	if x == nil || y == nil {
		return ""
	}
	m := new(big.Int).Add(x, y)
	m.Div(m, big.NewInt(2))
	if m.Cmp(x) <= 0 || m.Cmp(y) >= 0 {
		return ""
	}
	return m.String()
}
