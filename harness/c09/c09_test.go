// Package c09 checks C09 (DKV part): files needed by retained checkpoints or
// by the live level set are never deleted, across compaction, retention
// updates, forced garbage collection and reopening in the same process.
package c09

import (
	"testing"

	"pgregory.net/rapid"
	"verifharness/hx"
	"verifharness/lsm"
)

var kinds = []string{"put", "put", "put", "put", "put", "put", "put", "del", "del", "get", "scan", "checkall",
	"settle", "checkpoint", "checkpoint", "retain", "retain", "gc", "gc", "gc", "reopen", "restore"}

func gen(rt *rapid.T) lsm.Program {
	return lsm.Program{
		Cfg:  lsm.GenConfig(rt),
		Keys: lsm.GenKeys(rt),
		Ops:  lsm.GenOps(rt, rapid.IntRange(5, 80).Draw(rt, "n"), kinds),
	}
}

func exec(p lsm.Program, c *hx.Case) error {
	return lsm.Exec(p, c, lsm.Mode{CheckFiles: true})
}

func TestPropFiles(t *testing.T) {
	hx.Run(t, hx.Spec{Prop: "C09", Persist: true, Rule: "5..80 operations: writes with tiny memtables (flush + compaction after every few), Checkpoint, Retain(subset), forced garbage collection (runtime.GC until a sentinel cleanup ran), Reopen = abandon the database object and open a new one from the newest retained checkpoint on the SAME storage in the same process, crash-restores; after every step every SST/WAL URI in the document of every retained checkpoint exists, every retained checkpoint restores to its snapshot, and the live database answers Get of every key and a full scan per the model; non-trivial = >=1 forced GC, >=1 checkpoint and >=1 restore or reopen"}, gen, exec)
}
