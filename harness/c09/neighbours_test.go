package c09

import (
	"context"
	"encoding/json"
	"fmt"
	"runtime"
	"strings"
	"testing"
	"time"

	"connectrpc.com/connect"
	"pgregory.net/rapid"
	"reduction.dev/reduction/batching"
	"reduction.dev/reduction/config"
	"reduction.dev/reduction/jobs"
	"reduction.dev/reduction/proto"
	"reduction.dev/reduction/proto/snapshotpb"
	"verifharness/hx"
	"verifharness/opx"
)

// After a rescale the new operators share the old operator's tables. When one
// of them no longer needs a shared table it asks its neighbours (NeedsTable)
// before deleting the file. The neighbours answer per a drawn fault plan:
// truthfully, with an error, or as unreachable.

type nbProg struct {
	Groups  int
	N       int   // operator count after the rescale (2..3)
	Keys    []int // subject keys written before the rescale
	After   []int // subject keys rewritten after the rescale (drives compaction away from shared tables)
	Plan    []int // per NeedsTable call: 0 truthful, 1 error, 2 unreachable, 3 the call's context was cancelled, 4 the neighbour answers with a Canceled status (it is shutting down), 5 deadline exceeded, 6 Unavailable status, 7 the neighbour's process is up but its deployment has not opened its database yet
	MemTab  int
	Retains int // how many extra checkpoint+retention rounds after the rescale
}

func genNB(rt *rapid.T) nbProg {
	return nbProg{
		Groups:  rapid.SampledFrom([]int{2, 4, 8, 16}).Draw(rt, "groups"),
		N:       rapid.IntRange(2, 3).Draw(rt, "n"),
		Keys:    rapid.SliceOfN(rapid.IntRange(0, 15), 6, 30).Draw(rt, "keys"),
		After:   rapid.SliceOfN(rapid.IntRange(0, 15), 4, 40).Draw(rt, "after"),
		Plan:    rapid.SliceOfN(rapid.SampledFrom([]int{0, 0, 1, 1, 2, 3, 4, 5, 6, 7}), 1, 12).Draw(rt, "plan"),
		MemTab:  rapid.SampledFrom([]int{96, 160, 256}).Draw(rt, "memtable"),
		Retains: rapid.IntRange(1, 3).Draw(rt, "retains"),
	}
}

type ckDoc struct {
	Checkpoints []struct {
		ID     uint64                   `json:"id"`
		Levels [][]struct{ URI string } `json:"levels"`
		WALs   []struct {
			URI string `json:"uri"`
		} `json:"wals"`
	} `json:"checkpoints"`
}

func execNB(p nbProg, c *hx.Case) error {
	w := opx.NewWorld(opx.Tuning{MemTable: p.MemTab, TargetFile: 96, L0Trigger: 1, AmpPercent: 1, SmallLevel: 64})
	defer w.Close()
	keys := hx.AdversarialKeys
	senders := []string{"sr"}
	bp := batching.EventBatcherParams{MaxSize: 1}
	op0, err := w.StartOp("g0-op0", bp)
	if err != nil {
		return err
	}
	if err := op0.Deploy(w.DeployRequest([]string{"g0-op0"}, senders, p.Groups, nil)); err != nil {
		return hx.Errf("deploy: %v", err)
	}
	ev := 0
	write := func(op *opx.Op, k int) error {
		ev++
		key := keys[k%len(keys)]
		return op.Send("sr", opx.Keyed(key, opx.Script{ID: ev, Muts: []opx.Mut{{NS: "n", Key: []byte{byte(k)}, Val: []byte(fmt.Sprint(ev))}}}, int64(ev)))
	}
	for _, k := range p.Keys {
		if err := write(op0, k); err != nil {
			return hx.Errf("HandleEvent: %v", err)
		}
	}
	if err := op0.Send("sr", opx.Barrier(1)); err != nil {
		return hx.Errf("barrier: %v", err)
	}
	if !w.WaitAcks(1, 1, 10*time.Second) {
		return &hx.Inconclusive{Why: "checkpoint 1 not acknowledged"}
	}
	ack := w.AcksOf(1)[0]
	op0.Stop()
	w.SettleDead()
	w.H.Reset(ack.Snap)
	// fault plan for NeedsTable
	calls, faulty, truthfulNeeded := 0, 0, 0
	var undeployed *opx.Op
	w.NeedsFn = func(from, to, uri string) (bool, error, bool) {
		i := calls
		calls++
		switch p.Plan[i%len(p.Plan)] {
		case 1:
			faulty++
			return false, fmt.Errorf("injected NeedsTable failure"), true
		case 2:
			faulty++
			return false, fmt.Errorf("operator %s unreachable", to), true
		case 3:
			faulty++
			return false, fmt.Errorf("asking %s: %w", to, context.Canceled), true
		case 4:
			faulty++
			return false, connect.NewError(connect.CodeCanceled, fmt.Errorf("operator %s is shutting down", to)), true
		case 5:
			faulty++
			return false, fmt.Errorf("asking %s: %w", to, context.DeadlineExceeded), true
		case 6:
			faulty++
			return false, connect.NewError(connect.CodeUnavailable, fmt.Errorf("operator %s is not ready", to)), true
		case 7:
			// The job deploys all operators at once: the question may reach a
			// neighbour whose HandleDeploy has not opened its database yet. Whatever
			// that operator does with it (the engine's handler fails, which the asker
			// sees as an error), the asker must not take it for "not needed".
			faulty++
			if undeployed == nil {
				u, uerr := w.StartOp("undeployed-neighbour", batching.EventBatcherParams{MaxSize: 1})
				if uerr != nil {
					return false, uerr, true
				}
				undeployed = u
			}
			ans, aerr := func() (ans bool, err error) {
				defer func() {
					if r := recover(); r != nil {
						err = fmt.Errorf("the handler of %s failed: %v", to, r)
					}
				}()
				return undeployed.O.HandleNeedsTable(uri), nil
			}()
			return ans, aerr, true
		}
		return false, nil, false
	}
	// rescale 1 -> N through the real assembly
	ids := make([]string, p.N)
	var clients []proto.Operator
	ops := make([]*opx.Op, p.N)
	for i := range ids {
		ids[i] = fmt.Sprintf("g1-op%d", i)
		ops[i], err = w.StartOp(ids[i], bp)
		if err != nil {
			return err
		}
		clients = append(clients, w.Client("job", ids[i]))
	}
	asm := jobs.NewAssembly(clients, []proto.SourceRunner{opx.FakeSR("sr")})
	cfg := &config.Config{WorkerCount: p.N, KeyGroupCount: p.Groups, WorkingStorageLocation: w.Dir + "/work"}
	if err := asm.Deploy(cfg, &snapshotpb.JobCheckpoint{Id: 1, OperatorCheckpoints: []*snapshotpb.OperatorCheckpoint{ack.Ckpt}}); err != nil {
		return hx.Errf("Assembly.Deploy: %v", err)
	}
	owner := func(k int) *opx.Op {
		for _, o := range ops {
			if o.Owns(keys[k%len(keys)]) {
				return o
			}
		}
		return ops[0]
	}
	checkFiles := func(step string) error {
		for _, o := range ops {
			for id := uint64(1); id < 40; id++ {
				for _, a := range w.AcksOf(id) {
					if a.Ckpt.OperatorId != o.ID {
						continue
					}
					data := opx.ReadAll(w.MemFS(), a.Ckpt.DkvFileUri)
					var doc ckDoc
					if json.Unmarshal(data, &doc) != nil || len(doc.Checkpoints) == 0 {
						continue
					}
					// the checkpoints the operator currently retains
					for _, ck := range doc.Checkpoints {
						for _, lvl := range ck.Levels {
							for _, t := range lvl {
								if !w.MemFS().Exists(t.URI) {
									return hx.Errf("%s: table %s is referenced by checkpoint %d that operator %s retains, but the file was deleted (NeedsTable calls so far: %d, %d answered with an error or not at all)", step, t.URI, ck.ID, o.ID, calls, faulty)
								}
								truthfulNeeded++
							}
						}
					}
				}
			}
		}
		return nil
	}
	gc := func() {
		for i := 0; i < 3; i++ {
			runtime.GC()
			time.Sleep(300 * time.Microsecond)
		}
	}
	ck := uint64(1)
	per := max(1, len(p.After)/p.Retains)
	for r := 0; r < p.Retains; r++ {
		lo, hi := r*per, min(len(p.After), (r+1)*per)
		for _, k := range p.After[lo:hi] {
			if err := write(owner(k), k); err != nil {
				return hx.Errf("HandleEvent after the rescale: %v", err)
			}
		}
		w.Quiesce(10 * time.Second)
		ck++
		for _, o := range ops {
			if err := o.Send("sr", opx.Barrier(ck)); err != nil {
				return hx.Errf("barrier %d: %v", ck, err)
			}
		}
		if !w.WaitAcks(ck, p.N, 10*time.Second) {
			return &hx.Inconclusive{Why: "checkpoint not acknowledged"}
		}
		// the job publishes and tells every operator to retain only the new checkpoint
		for _, o := range ops {
			if err := w.Client("job", o.ID).UpdateRetainedCheckpoints(nil, []uint64{ck}); err != nil {
				return hx.Errf("UpdateRetainedCheckpoints: %v", err)
			}
		}
		gc()
		if err := checkFiles(fmt.Sprintf("after retention round %d", r+1)); err != nil {
			return err
		}
		if v := w.H.Violations(); len(v) > 0 {
			return hx.Errf("%s", strings.Join(v, "; "))
		}
	}
	// every key is still readable at its owner
	for k := 0; k < 16; k++ {
		ev++
		if err := owner(k).Send("sr", opx.Keyed(keys[k%len(keys)], opx.Script{ID: ev}, int64(ev))); err != nil {
			return hx.Errf("probing key %d after garbage collection: %v", k, err)
		}
	}
	if v := w.H.Violations(); len(v) > 0 {
		return hx.Errf("after garbage collection: %s", strings.Join(v, "; "))
	}
	c.LabelIf(calls > 0, "NeedsTable-asked")
	c.LabelIf(faulty > 0, "faulty-answer")
	if calls > 0 && faulty > 0 {
		c.NonTrivial()
	}
	return nil
}

func TestPropNeighbours(t *testing.T) {
	hx.Run(t, hx.Spec{Prop: "C09", Persist: true, Rule: "one real operator writes state over 2..16 key groups with a 96..256 B memtable (tables flushed and compacted), checkpoints, and is rescaled through the real Assembly.Deploy into 2..3 operators that share its tables; they rewrite keys (their compactions drop the shared tables from their own level lists), checkpoint 1..3 more times, are told to retain only the newest checkpoint, and garbage collection is forced; neighbours answer NeedsTable per a drawn plan (truthful / plain error / unreachable / cancelled context / Canceled status / deadline exceeded / Unavailable status / asked before its deployment has opened its database); after every round every table referenced by a checkpoint that some operator retains must exist, and finally every key must be readable at its owner with the right state; non-trivial = >=1 NeedsTable call and >=1 faulty answer"}, genNB, execNB)
}
