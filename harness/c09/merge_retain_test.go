package c09

import (
	"bytes"
	"encoding/binary"
	"encoding/json"
	"fmt"
	"runtime"
	"slices"
	"strings"
	"sync"
	"testing"
	"time"

	"pgregory.net/rapid"
	"reduction.dev/reduction/dkv"
	"reduction.dev/reduction/dkv/kv"
	"reduction.dev/reduction/dkv/recovery"
	"reduction.dev/reduction/dkv/sst"
	"reduction.dev/reduction/dkv/storage"
	"reduction.dev/reduction/partitioning"
	"reduction.dev/reduction/util/verifhook"
	"verifharness/hx"
	"verifharness/opx"
)

// Retained checkpoints across a rescale, below the operator: M databases with
// different write histories (so their table numbers differ) are merged into N, each new database either in a fresh directory or in the
// directory of one of its origins (operator ids are configurable and may be
// stable across a rescale); then more writes, checkpoints and retention
// updates. After every retention update every checkpoint the database still
// retains must have all its files and must restore to the contents it had.

type mrOp struct {
	Kind string // put | del | wait | ckpt
	KG   int
	Name int
	Val  []byte
	Keep int // ckpt: how many checkpoints the retention update that follows keeps (1..2)
}

type mrProg struct {
	Groups, M, N         int
	Perm                 []int
	Dirs                 []int // per new database: odd = reuse the directory of origin (v/2) % len(origins)
	MemTable, TargetFile int
	L0                   int
	RankSeed             uint32
	Names                int
	Before, After        []mrOp
}

var mrNames = []string{"", "a", "ab", "b", "\x00", "\xff", "k", "kk"}

func genMROps(rt *rapid.T, n, groups, names int, label string) []mrOp {
	var out []mrOp
	for i := 0; i < n; i++ {
		o := mrOp{Kind: rapid.SampledFrom([]string{"put", "put", "put", "put", "del", "wait", "ckpt", "ckpt"}).Draw(rt, label+"kind"),
			KG: rapid.IntRange(0, groups-1).Draw(rt, label+"kg"), Name: rapid.IntRange(0, names-1).Draw(rt, label+"name"),
			Keep: rapid.IntRange(1, 2).Draw(rt, label+"keep")}
		if o.Kind == "put" {
			o.Val = rapid.SliceOfN(rapid.Byte(), 0, 30).Draw(rt, label+"val")
		}
		out = append(out, o)
	}
	return out
}

func genMR(rt *rapid.T) mrProg {
	p := mrProg{
		Groups:     rapid.SampledFrom([]int{2, 3, 4, 6, 8}).Draw(rt, "groups"),
		M:          rapid.IntRange(1, 3).Draw(rt, "m"),
		N:          rapid.IntRange(1, 3).Draw(rt, "n"),
		Perm:       rapid.SliceOfN(rapid.IntRange(0, 99), 3, 3).Draw(rt, "perm"),
		Dirs:       rapid.SliceOfN(rapid.IntRange(0, 7), 3, 3).Draw(rt, "dirs"),
		MemTable:   rapid.SampledFrom([]int{64, 128, 300, 1 << 20}).Draw(rt, "memtable"),
		TargetFile: rapid.SampledFrom([]int{64, 256, 4096}).Draw(rt, "targetfile"),
		L0:         rapid.IntRange(1, 3).Draw(rt, "l0"),
		RankSeed:   rapid.Uint32().Draw(rt, "rank"),
		Names:      rapid.IntRange(2, len(mrNames)).Draw(rt, "names"),
	}
	p.Before = genMROps(rt, rapid.IntRange(1, 40).Draw(rt, "nbefore"), p.Groups, p.Names, "b")
	p.After = genMROps(rt, rapid.IntRange(1, 40).Draw(rt, "nafter"), p.Groups, p.Names, "a")
	return p
}

type mrOwner struct{ r partitioning.KeyGroupRange }

func (o mrOwner) OwnsKey(key []byte) bool {
	g := int(binary.BigEndian.Uint16(key[:2]))
	return g >= o.r.Start && g < o.r.End
}

// a shared table is never given up here: the neighbour protocol is TestPropNeighbours' subject
func (o mrOwner) ExclusivelyOwnsTable(string, []byte, []byte) (bool, error) { return false, nil }

var _ kv.DataOwnership = mrOwner{}

type mrDB struct {
	db      *dkv.DB
	dir     string
	r       partitioning.KeyGroupRange
	uri     string   // its checkpoints file, once a checkpoint was taken (or loaded)
	kept    []uint64 // checkpoint ids it retains, oldest first
	snaps   map[uint64]map[string][]byte
	loaded  uint64 // id of the checkpoint it was restored from (0 = none)
	loadedH []recovery.CheckpointHandle
}

func mrKey(kg, name int) []byte {
	k := make([]byte, 2, 8)
	binary.BigEndian.PutUint16(k, uint16(kg))
	return append(k, mrNames[name]...)
}

func execMR(p mrProg, c *hx.Case) error {
	rank := p.RankSeed | 1
	var mu sync.Mutex
	verifhook.SetTuner(func(name string, v any) {
		switch name {
		case "dkv.compactor":
			cp := v.(*sst.Compactor)
			cp.MaxSizeAmplificationPercent = 1
			cp.SmallestLevelSize = 64
		case "ziptree.rank":
			mu.Lock()
			rank = rank*1664525 + 1013904223
			*(v.(*uint32)) = rank >> 8
			mu.Unlock()
		}
	})
	defer verifhook.SetTuner(nil)
	trk := hx.TrackDBs()
	defer trk.Close()
	fs := storage.NewMemoryFilesystem()
	var keep []*dkv.DB // dead processes run no cleanups; live ones are kept for the whole case anyway
	defer func() {
		// nothing of this case may still run when its databases become garbage
		// (their cleanups delete files a late background compaction would read)
		for _, db := range keep {
			trk.Wait(db, db.WaitOnTasks)
		}
		runtime.KeepAlive(keep)
	}()
	open := func(dir string, r partitioning.KeyGroupRange, hs []recovery.CheckpointHandle) (db *dkv.DB, err error) {
		defer func() {
			if rec := recover(); rec != nil {
				err = hx.Errf("opening a database in %s from %d checkpoint handles panicked: %v", dir, len(hs), rec)
			}
		}()
		db = dkv.Open(dkv.DBOptions{FileSystem: fs.WithWorkingDir(dir), MemTableSize: uint64(p.MemTable), TargetFileSize: uint64(p.TargetFile),
			L0TableNumCompactionTrigger: p.L0, DataOwnership: mrOwner{r}}, hs)
		keep = append(keep, db)
		return db, nil
	}
	model := map[string][]byte{}
	snapshot := func(r partitioning.KeyGroupRange) map[string][]byte {
		out := map[string][]byte{}
		for k, v := range model {
			if (mrOwner{r}).OwnsKey([]byte(k)) {
				out[k] = v
			}
		}
		return out
	}
	ownerOf := func(dbs []*mrDB, g int) *mrDB {
		for _, d := range dbs {
			if g >= d.r.Start && g < d.r.End {
				return d
			}
		}
		return nil
	}
	nextID := uint64(0)
	probes, walsDropped, checked := 0, 0, 0
	// verify: every checkpoint d retains has its files and restores to its snapshot
	verify := func(d *mrDB, when string) error {
		if d.uri == "" {
			return nil
		}
		data := opx.ReadAll(fs, d.uri)
		var doc ckDoc
		if err := json.Unmarshal(data, &doc); err != nil {
			return hx.Errf("%s: checkpoints file %s of the database in %s is unreadable: %v", when, d.uri, d.dir, err)
		}
		listed := map[uint64]bool{}
		for _, ck := range doc.Checkpoints {
			listed[ck.ID] = true
			if !slices.Contains(d.kept, ck.ID) {
				continue // not yet dropped from the file is fine; only retained ones are required
			}
			for _, lvl := range ck.Levels {
				for _, t := range lvl {
					if !fs.Exists(t.URI) {
						return hx.Errf("%s: table %s of checkpoint %d, which the database in %s retains, no longer exists", when, t.URI, ck.ID, d.dir)
					}
				}
			}
			for _, wl := range ck.WALs {
				if !fs.Exists(wl.URI) {
					return hx.Errf("%s: write-ahead log %s of checkpoint %d, which the database in %s retains, no longer exists", when, wl.URI, ck.ID, d.dir)
				}
			}
		}
		for _, id := range d.kept {
			if !listed[id] {
				return hx.Errf("%s: the database in %s retains checkpoint %d but its checkpoints file lists %v", when, d.dir, id, doc.Checkpoints)
			}
			probes++
			pdb, err := open(fmt.Sprintf("probe%d", probes), d.r, []recovery.CheckpointHandle{{CheckpointID: id, URI: d.uri}})
			if err != nil {
				return hx.Errf("%s: retained checkpoint %d of the database in %s: %v", when, id, d.dir, err)
			}
			want := d.snaps[id]
			for g := d.r.Start; g < d.r.End; g++ {
				for n := 0; n < p.Names; n++ {
					k := mrKey(g, n)
					var got []byte
					present := false
					var serr error
					for e := range pdb.ScanPrefix(k, &serr) {
						if bytes.Equal(e.Key(), k) {
							got, present = slices.Clone(e.Value()), true
						}
					}
					if serr != nil {
						return hx.Errf("%s: reading retained checkpoint %d of the database in %s: %v", when, id, d.dir, serr)
					}
					w, had := want[string(k)]
					if present != had || (had && !bytes.Equal(got, w)) {
						return hx.Errf("%s: retained checkpoint %d of the database in %s (range %v) restores %q = %q (present=%v), it held %q (present=%v) when it was taken", when, id, d.dir, d.r, k, got, present, w, had)
					}
				}
			}
			// the probe is a reader that goes away again: nothing of it may still run
			// when the database it was opened from gives these files up
			if err := trk.Wait(pdb, pdb.WaitOnTasks); err != nil {
				return hx.Errf("%s: background task of a database restored from retained checkpoint %d of %s: %v", when, id, d.dir, err)
			}
			checked++
		}
		return nil
	}
	apply := func(dbs []*mrDB, o mrOp, when string) error {
		d := ownerOf(dbs, o.KG)
		if d == nil {
			return nil
		}
		k := mrKey(o.KG, o.Name)
		switch o.Kind {
		case "put":
			d.db.Put(k, o.Val)
			model[string(k)] = o.Val
		case "del":
			d.db.Delete(k)
			delete(model, string(k))
		case "wait":
			if err := trk.Wait(d.db, d.db.WaitOnTasks); err != nil {
				return hx.Errf("background task failed: %v", err)
			}
		case "ckpt":
			// a job checkpoint: every database of the assembly takes it; once all have
			// (the job publishes only then) every one is told the same ids to retain
			nextID++
			for _, d := range dbs {
				h, err := d.db.Checkpoint(nextID)()
				if err != nil {
					return hx.Errf("%s: checkpoint %d of the database in %s: %v", when, nextID, d.dir, err)
				}
				d.uri = h.URI
				d.snaps[nextID] = snapshot(d.r)
				d.kept = append(d.kept, nextID)
			}
			for _, d := range dbs {
				if len(d.kept) > o.Keep {
					dropped := d.kept[:len(d.kept)-o.Keep]
					d.kept = slices.Clone(d.kept[len(d.kept)-o.Keep:])
					if err := d.db.UpdateRetainedCheckpoints(d.kept); err != nil {
						return hx.Errf("%s: UpdateRetainedCheckpoints(%v): %v", when, d.kept, err)
					}
					walsDropped += len(dropped)
				}
				if err := trk.Wait(d.db, d.db.WaitOnTasks); err != nil {
					return hx.Errf("background task failed: %v", err)
				}
			}
			for i := 0; i < 2; i++ {
				runtime.GC()
			}
			for _, d := range dbs {
				if err := verify(d, fmt.Sprintf("%s, after checkpoint %d and retaining %v", when, nextID, d.kept)); err != nil {
					return err
				}
			}
		}
		return nil
	}
	from := slices.Clone(partitioning.NewKeySpace(p.Groups, p.M).KeyGroupRanges())
	olds := make([]*mrDB, len(from))
	for i, r := range from {
		dir := fmt.Sprintf("old%d", i)
		db, err := open(dir, r, nil)
		if err != nil {
			return err
		}
		olds[i] = &mrDB{db: db, dir: dir, r: r, snaps: map[uint64]map[string][]byte{}}
	}
	for _, o := range p.Before {
		if err := apply(olds, o, "before the rescale"); err != nil {
			return err
		}
	}
	// the job checkpoint the rescale restores from
	nextID++
	final := nextID
	handles := make([]recovery.CheckpointHandle, len(olds))
	finalSnap := map[string][]byte{}
	for k, v := range model {
		finalSnap[k] = v
	}
	for i, d := range olds {
		h, err := d.db.Checkpoint(final)()
		if err != nil {
			return hx.Errf("checkpoint %d of old database %d: %v", final, i, err)
		}
		if err := trk.Wait(d.db, d.db.WaitOnTasks); err != nil {
			return hx.Errf("background task failed: %v", err)
		}
		handles[i] = h
	}
	wantsReuse := false
	for j := 0; j < p.N; j++ {
		if p.Dirs[j%len(p.Dirs)]%2 == 1 {
			wantsReuse = true
		}
	}
	if wantsReuse && c.Known("C09-reopen-previous-object-cleanup") {
		// Open finding, excluded by construction: tables the previous database object
		// gave up are deleted by name whenever the collector gets to them, also after
		// the successor has created a file of that name. The old databases are kept
		// reachable and what they already gave up is collected now, before names can
		// be reused.
		c.Label("avoided:C09-reopen-previous-object-cleanup")
		for i := 0; i < 4; i++ {
			runtime.GC()
			time.Sleep(200 * time.Microsecond)
		}
	}
	idx := make([]int, len(from))
	for i := range idx {
		idx[i] = i
	}
	slices.SortStableFunc(idx, func(a, b int) int { return p.Perm[a] - p.Perm[b] })
	perm := make([]partitioning.KeyGroupRange, len(from))
	for i, j := range idx {
		perm[i] = from[j]
	}
	to := slices.Clone(partitioning.NewKeySpace(p.Groups, p.N).KeyGroupRanges())
	assign := partitioning.AssignRanges(to, perm)
	news := make([]*mrDB, len(to))
	taken := map[string]bool{}
	reused := 0
	for j, r := range to {
		var hs []recovery.CheckpointHandle
		var origins []int
		for _, fi := range assign[j] {
			hs = append(hs, handles[idx[fi]])
			origins = append(origins, idx[fi])
		}
		dir := fmt.Sprintf("new%d", j)
		if v := p.Dirs[j%len(p.Dirs)]; v%2 == 1 && len(origins) > 0 {
			if cand := fmt.Sprintf("old%d", origins[(v/2)%len(origins)]); !taken[cand] {
				dir = cand // the operator kept its id across the rescale
				reused++
			}
		}
		taken[dir] = true
		db, err := open(dir, r, hs)
		if err != nil {
			return err
		}
		d := &mrDB{db: db, dir: dir, r: r, snaps: map[uint64]map[string][]byte{}, loaded: final, loadedH: hs}
		if len(hs) > 0 {
			// it retains the checkpoint it was restored from until the job says otherwise
			d.kept = []uint64{final}
			snap := map[string][]byte{}
			for k, v := range finalSnap {
				if (mrOwner{r}).OwnsKey([]byte(k)) {
					snap[k] = v
				}
			}
			d.snaps[final] = snap
		}
		news[j] = d
	}
	for _, o := range p.After {
		if err := apply(news, o, "after the rescale"); err != nil {
			return err
		}
	}
	// the live databases still answer every read
	for _, d := range news {
		if err := trk.Wait(d.db, d.db.WaitOnTasks); err != nil {
			return hx.Errf("background task failed: %v", err)
		}
		for g := d.r.Start; g < d.r.End; g++ {
			for n := 0; n < p.Names; n++ {
				k := mrKey(g, n)
				e, err := d.db.Get(k)
				present := err == nil && !e.IsDelete()
				if err != nil && err != kv.ErrNotFound {
					return hx.Errf("at the end: Get(%q) in %s: %v", k, d.dir, err)
				}
				w, had := model[string(k)]
				if present != had || (had && !bytes.Equal(e.Value(), w)) {
					return hx.Errf("at the end: Get(%q) in %s is present=%v, the model has %q (present=%v)", k, d.dir, present, w, had)
				}
			}
		}
	}
	sstSeen := false
	for _, f := range fs.List() {
		if strings.HasSuffix(f, ".sst") {
			sstSeen = true
		}
	}
	c.LabelIf(p.M != p.N, "M!=N")
	c.LabelIf(reused > 0, "directory-of-an-origin-reused")
	c.LabelIf(walsDropped > 0, "checkpoints-dropped-by-retention")
	c.LabelIf(sstSeen, "tables")
	if checked >= 2 && walsDropped > 0 && (reused > 0 || p.M != p.N) {
		c.NonTrivial()
	}
	return nil
}

func TestPropRetainedAcrossMerge(t *testing.T) {
	hx.Run(t, hx.Spec{Prop: "C09", Persist: true, Rule: "M=1..3 dkv.DB instances over the ranges of NewKeySpace(groups, M) take 1..40 puts/deletes/waits and job checkpoints (every instance checkpoints with the same id, then every one is told to retain the same last 1..2 ids, as the job does); all are checkpointed with one id, the handles recorded in a drawn order and N=1..3 instances opened from the handles AssignRanges gives them, each in a fresh directory or in the directory of one of its origins (an operator id kept across the rescale); 1..40 more writes/checkpoints/retention updates follow; after every retention update (and two forced collections) every checkpoint the database retains - including the merged one it was restored from - must have all its table and WAL files and must restore, in a fresh directory, to the owned contents it had when taken; at the end every live database answers every read; non-trivial = >=2 retained checkpoints restored, >=1 dropped by retention, and a reused directory or M != N"}, genMR, execMR)
}
