// Package opx is the operator-level harness (L3): real operator.Operator
// instances wired to a reference handler, a recording fake job and harness
// senders; DKV is tuned tiny through the verif hooks.
package opx

import (
	"bytes"
	"context"
	"encoding/json"
	"fmt"
	"sort"
	"sync"
	"time"

	"google.golang.org/protobuf/types/known/timestamppb"
	"reduction.dev/reduction-protocol/handlerpb"
)

// Mut is one scripted state mutation.
type Mut struct {
	NS  string
	Key []byte
	Val []byte
	Del bool
}

// Script is carried in the value of a keyed event: the reference handler
// executes it, so the handler is a pure function of its input.
type Script struct {
	ID     int     // unique event id
	Sender string  // which upstream emitted it
	Muts   []Mut   // state mutations, in order
	Timers []int64 // timers to set (unix nanoseconds)
}

func (s Script) Marshal() []byte { b, _ := json.Marshal(s); return b }

type timerKey struct {
	Key string
	TS  int64
}

// Fired is one TimerExpired delivery.
type Fired struct {
	Key       string
	TS        int64
	Watermark int64 // watermark the handler was told with that batch
	Batch     int
}

// Handler is the reference handler: a shadow map per subject key, checked on
// every invocation against the state the operator supplies.
type Handler struct {
	mu         sync.Mutex
	shadow     map[string]map[string]map[string][]byte // subject -> namespace -> entry key -> value
	pending    map[timerKey]bool
	Applied    []int   // event ids in the order they were applied
	FiredLog   []Fired // timers in the order they fired
	Watermarks []int64 // watermark of every ProcessEventBatch request
	violations []string
	batches    int
	// statistics
	OverwritesOrDeletes int
	MaxBatch            int
	IgnoredTimers       int
	// OnBatch, if set, is called (without the lock) after each batch.
	OnBatch func()
}

func NewHandler() *Handler {
	return &Handler{shadow: map[string]map[string]map[string][]byte{}, pending: map[timerKey]bool{}}
}

func (h *Handler) violate(format string, a ...any) {
	if len(h.violations) < 20 {
		h.violations = append(h.violations, fmt.Sprintf(format, a...))
	}
}

// Violations returns what the handler has observed so far.
func (h *Handler) Violations() []string {
	h.mu.Lock()
	defer h.mu.Unlock()
	return append([]string(nil), h.violations...)
}

func (h *Handler) Batches() int {
	h.mu.Lock()
	defer h.mu.Unlock()
	return h.batches
}

// KeyEventBatch is not used at this level (the harness sends keyed events).
func (h *Handler) KeyEventBatch(ctx context.Context, events [][]byte) ([][]*handlerpb.KeyedEvent, error) {
	out := make([][]*handlerpb.KeyedEvent, len(events))
	return out, nil
}

func normVal(v []byte) []byte {
	if v == nil {
		return []byte{}
	}
	return v
}

// describe renders a namespace map for messages.
func describe(m map[string]map[string][]byte) string {
	var nss []string
	for ns := range m {
		nss = append(nss, ns)
	}
	sort.Strings(nss)
	var b bytes.Buffer
	b.WriteString("{")
	for _, ns := range nss {
		var ks []string
		for k := range m[ns] {
			ks = append(ks, k)
		}
		sort.Strings(ks)
		fmt.Fprintf(&b, "%q:{", ns)
		for _, k := range ks {
			fmt.Fprintf(&b, "%q=%q ", k, m[ns][k])
		}
		b.WriteString("} ")
	}
	b.WriteString("}")
	return b.String()
}

func (h *Handler) checkState(ks *handlerpb.KeyState) {
	got := map[string]map[string][]byte{}
	for _, ns := range ks.StateEntryNamespaces {
		if _, dup := got[ns.Namespace]; dup {
			h.violate("key %q: namespace %q supplied twice", ks.Key, ns.Namespace)
		}
		m := map[string][]byte{}
		for _, e := range ns.Entries {
			if _, dup := m[string(e.Key)]; dup {
				h.violate("key %q namespace %q: entry %q supplied twice", ks.Key, ns.Namespace, e.Key)
			}
			m[string(e.Key)] = normVal(e.Value)
		}
		if len(m) == 0 {
			h.violate("key %q: empty namespace %q supplied", ks.Key, ns.Namespace)
		}
		got[ns.Namespace] = m
	}
	want := h.shadow[string(ks.Key)]
	equal := len(got) == len(want)
	if equal {
		for ns, wm := range want {
			gm, ok := got[ns]
			if !ok || len(gm) != len(wm) {
				equal = false
				break
			}
			for k, wv := range wm {
				if gv, ok := gm[k]; !ok || !bytes.Equal(gv, wv) {
					equal = false
				}
			}
		}
	}
	if !equal {
		h.violate("handler invocation %d: state supplied for key %q is %s but the puts and deletes returned so far give %s", h.batches, ks.Key, describe(got), describe(want))
	}
}

// ProcessEventBatch checks the supplied state and executes the scripts.
func (h *Handler) ProcessEventBatch(ctx context.Context, req *handlerpb.ProcessEventBatchRequest) (*handlerpb.ProcessEventBatchResponse, error) {
	h.mu.Lock()
	h.batches++
	wm := req.Watermark.AsTime().UnixNano()
	if req.Watermark.AsTime().Unix() < -10_000_000_000 {
		wm = -1 << 62 // "before the epoch": no watermark yet
	}
	h.Watermarks = append(h.Watermarks, wm)
	h.MaxBatch = max(h.MaxBatch, len(req.Events))
	supplied := map[string]bool{}
	for _, ks := range req.KeyStates {
		if supplied[string(ks.Key)] {
			h.violate("handler invocation %d: state for key %q supplied twice", h.batches, ks.Key)
		}
		supplied[string(ks.Key)] = true
		h.checkState(ks)
	}
	resp := &handlerpb.ProcessEventBatchResponse{}
	for _, ev := range req.Events {
		switch e := ev.Event.(type) {
		case *handlerpb.Event_KeyedEvent:
			ke := e.KeyedEvent
			if !supplied[string(ke.Key)] {
				h.violate("handler invocation %d: no state supplied for key %q of an event in the batch", h.batches, ke.Key)
			}
			var sc Script
			if err := json.Unmarshal(ke.Value, &sc); err != nil {
				h.violate("undecodable event value: %v", err)
				continue
			}
			h.Applied = append(h.Applied, sc.ID)
			kr := &handlerpb.KeyResult{Key: ke.Key}
			subj := h.shadow[string(ke.Key)]
			if subj == nil {
				subj = map[string]map[string][]byte{}
				h.shadow[string(ke.Key)] = subj
			}
			for _, m := range sc.Muts {
				var last *handlerpb.StateMutationNamespace
				if n := len(kr.StateMutationNamespaces); n > 0 && kr.StateMutationNamespaces[n-1].Namespace == m.NS {
					last = kr.StateMutationNamespaces[n-1]
				} else {
					last = &handlerpb.StateMutationNamespace{Namespace: m.NS}
					kr.StateMutationNamespaces = append(kr.StateMutationNamespaces, last)
				}
				if m.Del {
					last.Mutations = append(last.Mutations, &handlerpb.StateMutation{Mutation: &handlerpb.StateMutation_Delete{Delete: &handlerpb.DeleteMutation{Key: m.Key}}})
					if subj[m.NS] != nil {
						if _, had := subj[m.NS][string(m.Key)]; had {
							h.OverwritesOrDeletes++
						}
						delete(subj[m.NS], string(m.Key))
						if len(subj[m.NS]) == 0 {
							delete(subj, m.NS)
						}
					}
				} else {
					last.Mutations = append(last.Mutations, &handlerpb.StateMutation{Mutation: &handlerpb.StateMutation_Put{Put: &handlerpb.PutMutation{Key: m.Key, Value: m.Val}}})
					if subj[m.NS] == nil {
						subj[m.NS] = map[string][]byte{}
					}
					if _, had := subj[m.NS][string(m.Key)]; had {
						h.OverwritesOrDeletes++
					}
					subj[m.NS][string(m.Key)] = normVal(m.Val)
				}
			}
			if len(subj) == 0 {
				delete(h.shadow, string(ke.Key))
			}
			for _, ts := range sc.Timers {
				kr.NewTimers = append(kr.NewTimers, timestamppb.New(time.Unix(0, ts)))
				// Setting a timer at or before the operator's watermark is a no-op.
				if ts <= wm {
					h.IgnoredTimers++
					continue
				}
				h.pending[timerKey{string(ke.Key), ts}] = true
			}
			resp.KeyResults = append(resp.KeyResults, kr)
		case *handlerpb.Event_TimerExpired:
			te := e.TimerExpired
			ts := te.Timestamp.AsTime().UnixNano()
			if !supplied[string(te.Key)] {
				h.violate("handler invocation %d: no state supplied for key %q of an expired timer", h.batches, te.Key)
			}
			tk := timerKey{string(te.Key), ts}
			if !h.pending[tk] {
				h.violate("handler invocation %d: timer (%q, %d) fired but is not pending: it was never set, was set at or before the watermark, or fired before", h.batches, te.Key, ts)
			}
			delete(h.pending, tk)
			if ts > wm {
				h.violate("handler invocation %d: timer (%q, %d) fired although the operator's watermark is %d", h.batches, te.Key, ts, wm)
			}
			h.FiredLog = append(h.FiredLog, Fired{string(te.Key), ts, wm, h.batches})
		}
	}
	cb := h.OnBatch
	h.mu.Unlock()
	if cb != nil {
		cb()
	}
	return resp, nil
}

// Snapshot is the handler's model state at one instant.
type Snapshot struct {
	Shadow  map[string]map[string]map[string][]byte
	Pending map[timerKey]bool
	Applied int
}

// SnapshotOf copies the model state of the subject keys accepted by owns.
func (h *Handler) SnapshotOf(owns func(key []byte) bool) Snapshot {
	h.mu.Lock()
	defer h.mu.Unlock()
	s := Snapshot{Shadow: map[string]map[string]map[string][]byte{}, Pending: map[timerKey]bool{}, Applied: len(h.Applied)}
	for k, nss := range h.shadow {
		if !owns([]byte(k)) {
			continue
		}
		c := map[string]map[string][]byte{}
		for ns, m := range nss {
			cm := map[string][]byte{}
			for ek, v := range m {
				cm[ek] = v
			}
			c[ns] = cm
		}
		s.Shadow[k] = c
	}
	for tk := range h.pending {
		if owns([]byte(tk.Key)) {
			s.Pending[tk] = true
		}
	}
	return s
}

// Merge adds the keys of o into s.
func (s *Snapshot) Merge(o Snapshot) {
	if s.Shadow == nil {
		s.Shadow = map[string]map[string]map[string][]byte{}
		s.Pending = map[timerKey]bool{}
	}
	for k, v := range o.Shadow {
		s.Shadow[k] = v
	}
	for k := range o.Pending {
		s.Pending[k] = true
	}
}

// Reset replaces the whole model state with a snapshot (recovery).
func (h *Handler) Reset(s Snapshot) {
	h.mu.Lock()
	defer h.mu.Unlock()
	h.shadow = map[string]map[string]map[string][]byte{}
	for k, nss := range s.Shadow {
		c := map[string]map[string][]byte{}
		for ns, m := range nss {
			cm := map[string][]byte{}
			for ek, v := range m {
				cm[ek] = v
			}
			c[ns] = cm
		}
		h.shadow[k] = c
	}
	h.pending = map[timerKey]bool{}
	for tk := range s.Pending {
		h.pending[tk] = true
	}
}

// PendingTimers lists the pending timers of the keys accepted by owns with a
// timestamp <= upTo.
func (h *Handler) PendingTimers(owns func(key []byte) bool, upTo int64) []string {
	h.mu.Lock()
	defer h.mu.Unlock()
	var out []string
	for tk := range h.pending {
		if tk.TS <= upTo && owns([]byte(tk.Key)) {
			out = append(out, fmt.Sprintf("(%q,%d)", tk.Key, tk.TS))
		}
	}
	sort.Strings(out)
	return out
}

func (h *Handler) ShadowKeys() []string {
	h.mu.Lock()
	defer h.mu.Unlock()
	var ks []string
	for k := range h.shadow {
		ks = append(ks, k)
	}
	sort.Strings(ks)
	return ks
}

// Lock / Unlock give a harness a consistent view of the exported logs.
func (h *Handler) Lock()   { h.mu.Lock() }
func (h *Handler) Unlock() { h.mu.Unlock() }
