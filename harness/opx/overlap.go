package opx

import (
	"bytes"
	"encoding/json"
	"sort"

	"reduction.dev/reduction/dkv/storage"
	"reduction.dev/reduction/partitioning"
	"reduction.dev/reduction/proto/snapshotpb"
)

// A DKV checkpoints file, as far as the harness reads it (the file is JSON).
type dkvTableDoc struct {
	StartKey []byte
	EndKey   []byte
	URI      string
}
type dkvCkptDoc struct {
	ID     uint64          `json:"id"`
	Levels [][]dkvTableDoc `json:"levels"`
}
type dkvCkptListDoc struct {
	Checkpoints []dkvCkptDoc `json:"checkpoints"`
}

// SortedLevelsOverlap tells whether restoring new operators with the given
// ranges from these operator checkpoints would put two tables with
// intersecting key ranges into the same level below level 0 of one database
// (LoadCheckpointList unites the level lists of all checkpoints an operator is
// given, level by level). Such a level is no longer a sorted run, and the
// binary search over it consults one table only: that is the mechanism of the
// open finding about re-merging tables that hold foreign keys, and where it
// does not arise a second change of the operator count is safe to explore.
func SortedLevelsOverlap(fs *storage.MemoryFilesystem, ckpts []*snapshotpb.OperatorCheckpoint, to []partitioning.KeyGroupRange) bool {
	levelsOf := make([][][]dkvTableDoc, len(ckpts))
	for i, c := range ckpts {
		var doc dkvCkptListDoc
		if json.Unmarshal(ReadAll(fs, c.DkvFileUri), &doc) != nil {
			return true // unreadable: assume the worst
		}
		for _, d := range doc.Checkpoints {
			if d.ID == c.CheckpointId {
				levelsOf[i] = d.Levels
			}
		}
	}
	for _, r := range to {
		var merged [][]dkvTableDoc
		for i, c := range ckpts {
			kr := c.KeyGroupRange
			if kr == nil || int(kr.Start) >= r.End || r.Start >= int(kr.End) {
				continue
			}
			for lv, tables := range levelsOf[i] {
				for len(merged) <= lv {
					merged = append(merged, nil)
				}
				merged[lv] = append(merged[lv], tables...)
			}
		}
		for lv := 1; lv < len(merged); lv++ {
			ts := merged[lv]
			sort.SliceStable(ts, func(a, b int) bool { return bytes.Compare(ts[a].StartKey, ts[b].StartKey) < 0 })
			for i := 1; i < len(ts); i++ {
				if bytes.Compare(ts[i-1].EndKey, ts[i].StartKey) >= 0 {
					return true
				}
			}
		}
	}
	return false
}
