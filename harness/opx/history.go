package opx

import (
	"context"
	"fmt"
	"sort"
	"strings"
	"time"

	"pgregory.net/rapid"
	"reduction.dev/reduction/batching"
	"reduction.dev/reduction/config"
	"reduction.dev/reduction/jobs"
	"reduction.dev/reduction/partitioning"
	"reduction.dev/reduction/proto"
	"reduction.dev/reduction/proto/snapshotpb"
	"reduction.dev/reduction/proto/workerpb"
	"verifharness/hx"
	"verifharness/refimpl"
)

// HOp is one step of an operator-level history; the harness plays the source
// runners: it routes keyed events by the reference key-group arithmetic and
// broadcasts watermarks and barriers to every operator.
type HOp struct {
	Kind   string // event | wm | flush | checkpoint | rescale | probe | complete (the sender's source is exhausted: SourceComplete)
	Sender int
	Key    int
	Muts   []Mut
	Timers []int64
	WM     int64
	N      int   // rescale: new operator count
	Perm   []int // rescale: order in which the old operators' checkpoints are recorded
}

// History is a JSON-serialisable operator-level Program.
type History struct {
	Tune    Tuning
	Groups  int
	Batch   int
	Senders int
	Ops0    int // initial operator count
	NKeys   int
	Ops     []HOp
}

// HStats is what a run reports for labels / non-triviality.
type HStats struct {
	Rescales, NonIdentityPerm, ScaleChange, Restores int
	FlushSwaps, CompactSwaps                         int
	Fired, MaxPending, Reregistered                  int
	FiredAfterRestore, PendingAtRestore              int
	WMBatches, MinChanges                            int
	Checkpoints                                      int
	Completed                                        int // upstream runners that reported their source exhausted
}

type hrun struct {
	p       History
	w       *World
	c       *hx.Case
	ops     []*Op
	senders []string
	keys    [][]byte
	wms     map[string]int64 // latest watermark per sender; absent = not reported yet
	anyWM   bool
	gen     int
	evID    int
	ckptID  uint64
	seenWM  int // how many handler watermarks have been checked
	st      HStats
	lastMin string
	setTs   map[string]int // how often each (key,ts) was registered
	foreign bool           // the current operators' tables may hold keys of other ranges
	done    map[string]bool // upstream runners that sent SourceComplete in this deployment
}

// activeSender maps a drawn sender index to a runner that still reads: a runner
// whose source is exhausted sends no further records.
func (r *hrun) activeSender(i int) string {
	for d := 0; d < len(r.senders); d++ {
		if s := r.senders[(i+d)%len(r.senders)]; !r.done[s] {
			return s
		}
	}
	return r.senders[i%len(r.senders)]
}

type fakeSR struct {
	*proto.UnimplementedSourceRunner
	id string
}

func (f fakeSR) ID() string                                                        { return f.id }
func (f fakeSR) Host() string                                                      { return f.id }
func (f fakeSR) Deploy(context.Context, *workerpb.DeploySourceRunnerRequest) error { return nil }

const noWM = int64(-1) << 62

func (r *hrun) composite() int64 {
	if !r.anyWM {
		return noWM
	}
	m := int64(1) << 62
	for _, s := range r.senders {
		v, ok := r.wms[s]
		if !ok {
			v = 0 // a runner that has not reported yet counts as the epoch
		}
		m = min(m, v)
	}
	return m
}

func (r *hrun) minSender() string {
	best, bv := "", int64(1)<<62
	for _, s := range r.senders {
		v := r.wms[s]
		if v < bv {
			best, bv = s, v
		}
	}
	return best
}

// owner: the operator whose range (as the engine lays ranges out) contains the
// key's group (computed by the independent reference hash).
func (r *hrun) owner(key []byte) *Op {
	g := refimpl.KeyGroup(key, r.p.Groups)
	for i, kr := range partitioning.NewKeySpace(r.p.Groups, len(r.ops)).KeyGroupRanges() {
		if g >= kr.Start && g < kr.End {
			return r.ops[i]
		}
	}
	return r.ops[0]
}

func (r *hrun) check(step int, what string) error {
	if v := r.w.H.Violations(); len(v) > 0 {
		return hx.Errf("step %d (%s): %s", step, what, strings.Join(v, "; "))
	}
	// every handler invocation since the last check was told the operators' minimum watermark
	r.w.H.mu.Lock()
	wms := r.w.H.Watermarks[r.seenWM:]
	r.seenWM = len(r.w.H.Watermarks)
	r.w.H.mu.Unlock()
	want := r.composite()
	for _, got := range wms {
		r.st.WMBatches++
		// before the first watermark message the operator reports "no watermark"
		// (earlier than the epoch); the property counts that as the epoch
		if got == noWM && want <= 0 {
			continue
		}
		if got != want {
			return hx.Errf("step %d (%s): the handler was told watermark %d but the minimum over the upstream runners %v (unreported = epoch) is %d", step, what, got, r.wms, want)
		}
	}
	return nil
}

func (r *hrun) deploy(opIDs []string, ckpt *snapshotpb.JobCheckpoint) error {
	bp := batching.EventBatcherParams{MaxSize: r.p.Batch}
	var clients []proto.Operator
	r.ops = nil
	for _, id := range opIDs {
		op, err := r.w.StartOp(id, bp)
		if err != nil {
			return err
		}
		r.ops = append(r.ops, op)
		clients = append(clients, r.w.Client("job", id))
	}
	cfg := &config.Config{WorkerCount: len(opIDs), KeyGroupCount: r.p.Groups, WorkingStorageLocation: r.w.Dir + "/work"}
	// The real assembly computes which checkpoints go to which operator; the
	// source runners are stand-ins that only carry the upstream ids.
	var srs []proto.SourceRunner
	for _, s := range r.senders {
		srs = append(srs, fakeSR{id: s})
	}
	asm := jobs.NewAssembly(clients, srs)
	if err := asm.Deploy(cfg, ckpt); err != nil {
		return hx.Errf("Assembly.Deploy: %v", err)
	}
	r.wms = map[string]int64{}
	r.anyWM = false
	r.done = map[string]bool{}
	return nil
}

func (r *hrun) flushAll() error {
	for _, op := range r.ops {
		s := r.senders[0]
		wm, ok := r.wms[s]
		if !ok {
			// an unreported runner counts as the epoch: sending the epoch changes nothing
			wm = 0
			if !r.anyWM {
				// ...except that it is the first watermark message of this deployment
				r.anyWM = true
			}
			r.wms[s] = 0
		}
		if err := op.Flush(s, wm); err != nil {
			return err
		}
	}
	return nil
}

// checkDue: after a flush nothing that is due may still be pending.
func (r *hrun) checkDue(step int) error {
	w := r.composite()
	if w == noWM {
		return nil
	}
	for _, op := range r.ops {
		if due := r.w.H.PendingTimers(op.Owns, w); len(due) > 0 {
			return hx.Errf("step %d: operator %s has watermark %d but timers %v have not fired", step, op.ID, w, due)
		}
	}
	return nil
}

func timerLabel(k []byte, ts int64) string { return fmt.Sprintf("%x@%d", k, ts) }

// ExecHistory runs an operator-level history.
func ExecHistory(p History, c *hx.Case) (st HStats, err error) {
	w := NewWorld(p.Tune)
	defer w.Close()
	r := &hrun{p: p, w: w, c: c, senders: []string{"sr0", "sr1", "sr2", "sr3"}[:max(1, min(p.Senders, 4))],
		keys: hx.AdversarialKeys[:max(2, min(p.NKeys, len(hx.AdversarialKeys)))], wms: map[string]int64{}, setTs: map[string]int{}}
	ids := make([]string, max(1, p.Ops0))
	for i := range ids {
		ids[i] = fmt.Sprintf("g0-op%d", i)
	}
	if err := r.deploy(ids, nil); err != nil {
		return r.st, err
	}
	for step, o := range p.Ops {
		switch o.Kind {
		case "event":
			r.evID++
			k := r.keys[o.Key%len(r.keys)]
			s := r.activeSender(o.Sender)
			for _, ts := range o.Timers {
				r.setTs[timerLabel(k, ts)]++
				if r.setTs[timerLabel(k, ts)] >= 3 {
					r.st.Reregistered++
				}
			}
			if err := r.owner(k).Send(s, Keyed(k, Script{ID: r.evID, Sender: s, Muts: o.Muts, Timers: o.Timers}, int64(r.evID))); err != nil {
				return r.st, hx.Errf("step %d: HandleEvent: %v", step, err)
			}
		case "wm":
			s := r.senders[o.Sender%len(r.senders)]
			wm := max(o.WM, r.wms[s]) // a runner's watermark never decreases
			if r.done[s] {
				// an exhausted runner reads nothing new: its ticker repeats its last watermark
				if _, reported := r.wms[s]; !reported {
					break
				}
				wm = r.wms[s]
			}
			before := r.minSender()
			r.wms[s] = wm
			r.anyWM = true
			if r.minSender() != before {
				r.st.MinChanges++
			}
			for _, op := range r.ops {
				if err := op.Send(s, Watermark(wm)); err != nil {
					return r.st, hx.Errf("step %d: watermark: %v", step, err)
				}
			}
		case "complete":
			s := r.senders[o.Sender%len(r.senders)]
			left := 0
			for _, x := range r.senders {
				if !r.done[x] && x != s {
					left++
				}
			}
			if r.done[s] || left == 0 {
				break // the last reading runner stays: an operator without active upstreams stops
			}
			r.done[s] = true
			r.st.Completed++
			for _, op := range r.ops {
				if err := op.Send(s, &workerpb.Event{Event: &workerpb.Event_SourceComplete{SourceComplete: &workerpb.SourceCompleteEvent{}}}); err != nil {
					return r.st, hx.Errf("step %d: source complete: %v", step, err)
				}
			}
		case "flush":
			if err := r.flushAll(); err != nil {
				return r.st, err
			}
			if err := r.check(step, "flush"); err != nil {
				return r.st, err
			}
			if err := r.checkDue(step); err != nil {
				return r.st, err
			}
		case "probe":
			for _, k := range r.keys {
				r.evID++
				if err := r.owner(k).Send(r.senders[0], Keyed(k, Script{ID: r.evID}, int64(r.evID))); err != nil {
					return r.st, hx.Errf("step %d: probe: %v", step, err)
				}
			}
			if err := r.flushAll(); err != nil {
				return r.st, err
			}
		case "checkpoint", "rescale":
			r.ckptID++
			for _, op := range r.ops {
				for _, s := range r.senders {
					if err := op.Send(s, Barrier(r.ckptID)); err != nil {
						return r.st, hx.Errf("step %d: barrier: %v", step, err)
					}
				}
			}
			if !w.WaitAcks(r.ckptID, len(r.ops), 10*time.Second) {
				return r.st, &hx.Inconclusive{Why: "checkpoint not acknowledged"}
			}
			r.st.Checkpoints++
			if o.Kind == "checkpoint" {
				break
			}
			if err := r.check(step, "checkpoint before rescale"); err != nil {
				return r.st, err
			}
			acks := w.AcksOf(r.ckptID)
			// record the operator checkpoints in the drawn order
			order := make([]int, len(acks))
			for i := range order {
				order[i] = i
			}
			if len(o.Perm) > 0 {
				sort.SliceStable(order, func(a, b int) bool {
					return o.Perm[order[a]%len(o.Perm)] < o.Perm[order[b]%len(o.Perm)]
				})
			}
			jc := &snapshotpb.JobCheckpoint{Id: r.ckptID}
			var snap Snapshot
			identity := true
			for i, idx := range order {
				jc.OperatorCheckpoints = append(jc.OperatorCheckpoints, acks[idx].Ckpt)
				snap.Merge(acks[idx].Snap)
				if i > 0 && acks[idx].Ckpt.KeyGroupRange.Start < acks[order[i-1]].Ckpt.KeyGroupRange.Start {
					identity = false
				}
			}
			oldN := len(r.ops)
			n := max(1, o.N)
			if n != oldN && r.foreign && r.c.Known("C06-remerge-of-tables-holding-foreign-keys") {
				// Open known finding, excluded by construction: the current operators
				// were themselves restored from checkpoints wider than their range, so
				// their tables still hold other operators' (stale) keys; merging or
				// re-splitting them can put two tables with intersecting key ranges into
				// one sorted level, where only one of them is consulted. Where the
				// checkpoints at hand do not lead to such a level, the second change of
				// the count is explored (an operator reads by prefix scan, which merges
				// every table it visits by sequence number).
				if SortedLevelsOverlap(w.MemFS(), jc.OperatorCheckpoints, partitioning.NewKeySpace(r.p.Groups, n).KeyGroupRanges()) {
					r.c.Label("avoided:C06-remerge-of-tables-holding-foreign-keys")
					n = oldN
				} else {
					r.c.Label("second-count-change-over-tables-holding-foreign-keys")
				}
			}
			// will the new operators receive tables with keys they do not own? (a
			// checkpoint whose state is in the write-ahead logs only hands every new
			// operator just the entries it owns: the replay is filtered by ownership)
			if n != oldN {
				for _, f := range w.MemFS().List() {
					if strings.HasSuffix(f, ".sst") {
						r.foreign = true
						break
					}
				}
				if !r.foreign {
					r.c.Label("count-change-without-tables")
				}
			}
			for _, op := range r.ops {
				op.Stop()
			}
			w.SettleDead()
			r.gen++
			ids := make([]string, n)
			for i := range ids {
				ids[i] = fmt.Sprintf("g%d-op%d", r.gen, i)
			}
			w.H.Reset(snap)
			r.st.PendingAtRestore += len(snap.Pending)
			if err := r.deploy(ids, jc); err != nil {
				return r.st, err
			}
			r.st.Rescales++
			if !identity {
				r.st.NonIdentityPerm++
			}
			if n != oldN {
				r.st.ScaleChange++
			}
		}
		if err := r.check(step, o.Kind); err != nil {
			return r.st, err
		}
	}
	// final: flush, read everything back through the API, nothing due is pending
	if err := r.flushAll(); err != nil {
		return r.st, err
	}
	for _, k := range r.keys {
		r.evID++
		if err := r.owner(k).Send(r.senders[0], Keyed(k, Script{ID: r.evID}, int64(r.evID))); err != nil {
			return r.st, hx.Errf("final probe: %v", err)
		}
	}
	if err := r.flushAll(); err != nil {
		return r.st, err
	}
	if err := r.check(len(p.Ops), "final probe of every key"); err != nil {
		return r.st, err
	}
	if err := r.checkDue(len(p.Ops)); err != nil {
		return r.st, err
	}
	// timers fire in non-decreasing timestamp order per operator incarnation:
	// checked per handler batch sequence by the watermark they were told
	r.st.Fired = len(w.H.FiredLog)
	r.st.FlushSwaps, r.st.CompactSwaps, _ = w.Counters()
	return r.st, nil
}

// GenHistory draws a history; weights select the op mix.
func GenHistory(rt *rapid.T, kinds []string, maxOps0, maxSenders int, timers bool) History {
	p := History{
		Tune: Tuning{
			MemTable:   rapid.SampledFrom([]int{96, 160, 256, 512, 4096}).Draw(rt, "memtable"),
			TargetFile: rapid.SampledFrom([]int{64, 128, 512, 4096}).Draw(rt, "targetfile"),
			L0Trigger:  rapid.IntRange(1, 3).Draw(rt, "l0"),
			AmpPercent: rapid.SampledFrom([]int{1, 50, 200}).Draw(rt, "amp"),
			SmallLevel: rapid.SampledFrom([]int64{64, 1024, 1 << 28}).Draw(rt, "small"),
			RankSeed:   rapid.Uint32().Draw(rt, "rank"),
		},
		Groups:  rapid.SampledFrom([]int{1, 2, 3, 3, 5, 5, 8, 8, 16, 16, 64, 256}).Draw(rt, "groups"),
		Batch:   rapid.IntRange(1, 5).Draw(rt, "batch"),
		Senders: rapid.IntRange(1, maxSenders).Draw(rt, "senders"),
		Ops0:    rapid.IntRange(1, maxOps0).Draw(rt, "ops0"),
		NKeys:   rapid.IntRange(3, 14).Draw(rt, "nkeys"),
	}
	if timers {
		p.Tune.TimerCache = rapid.SampledFrom([]int{0, 0, 20, 40, 90, 400}).Draw(rt, "timercache")
	}
	n := rapid.IntRange(3, 60).Draw(rt, "n")
	tsGen := rapid.OneOf(rapid.Int64Range(1, 12), rapid.Int64Range(1, 60))
	// the entries written most recently (subject key + mutation): right after a
	// restore the history comes back to them ("later updates to restored keys
	// take effect"), because that is where a restored database that resumes its
	// sequence numbers too low, or reads a stale table first, shows
	type touched struct {
		Key int
		M   Mut
	}
	var recent []touched
	for i := 0; i < n; i++ {
		k := rapid.SampledFrom(kinds).Draw(rt, "kind")
		o := HOp{Kind: k, Sender: rapid.IntRange(0, 3).Draw(rt, "sender"), Key: rapid.IntRange(0, 13).Draw(rt, "key")}
		if k == "event" && len(recent) > 0 && rapid.IntRange(0, 3).Draw(rt, "hot") == 0 {
			// a hot key: operators are not equally busy
			o.Key = recent[len(recent)-1].Key
		}
		switch k {
		case "event":
			nm := rapid.IntRange(0, 2).Draw(rt, "nmuts")
			for j := 0; j < nm; j++ {
				m := Mut{NS: rapid.SampledFrom([]string{"", "a", "ab"}).Draw(rt, "ns"), Key: hx.KeyFrom(rt, 6, "ekey"), Del: rapid.IntRange(0, 3).Draw(rt, "del") == 0}
				if !m.Del {
					m.Val = rapid.SliceOfN(rapid.Byte(), 0, 6).Draw(rt, "val")
				}
				o.Muts = append(o.Muts, m)
			}
			if timers {
				o.Timers = rapid.SliceOfN(tsGen, 0, 3).Draw(rt, "timers")
			}
		case "wm":
			o.WM = tsGen.Draw(rt, "wm")
		case "rescale":
			o.N = rapid.IntRange(1, 4).Draw(rt, "n")
			o.Perm = rapid.SliceOfN(rapid.IntRange(0, 9), 0, 4).Draw(rt, "perm")
		}
		p.Ops = append(p.Ops, o)
		for _, m := range o.Muts {
			recent = append(recent, touched{o.Key, m})
		}
		if len(recent) > 8 {
			recent = recent[len(recent)-8:]
		}
		if k == "rescale" && len(recent) > 0 {
			nt := rapid.IntRange(0, 5).Draw(rt, "retouch")
			for j := 0; j < nt; j++ {
				t := rapid.SampledFrom(recent).Draw(rt, "touched")
				m := Mut{NS: t.M.NS, Key: t.M.Key, Del: rapid.IntRange(0, 2).Draw(rt, "del") == 0}
				if !m.Del {
					m.Val = rapid.SliceOfN(rapid.Byte(), 0, 6).Draw(rt, "val")
				}
				p.Ops = append(p.Ops, HOp{Kind: "event", Sender: rapid.IntRange(0, 3).Draw(rt, "sender"), Key: t.Key, Muts: []Mut{m}})
			}
		}
	}
	return p
}

var _ = partitioning.KeyGroup(0)
