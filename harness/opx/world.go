package opx

import (
	"context"
	"fmt"
	"os"
	"runtime"
	"strings"
	"sync"
	"time"

	"google.golang.org/protobuf/types/known/timestamppb"
	"reduction.dev/reduction-protocol/handlerpb"
	"reduction.dev/reduction/batching"
	"reduction.dev/reduction/clocks"
	"reduction.dev/reduction/dkv"
	"reduction.dev/reduction/dkv/sst"
	"reduction.dev/reduction/dkv/storage"
	"reduction.dev/reduction/partitioning"
	"reduction.dev/reduction/proto"
	"reduction.dev/reduction/proto/jobpb"
	"reduction.dev/reduction/proto/snapshotpb"
	"reduction.dev/reduction/proto/workerpb"
	"reduction.dev/reduction/util/verifhook"
	"reduction.dev/reduction/workers/operator"
	"verifharness/hx"
)

// Tuning are the tiny engine settings applied through the verif hooks.
type Tuning struct {
	MemTable   int
	TargetFile int
	L0Trigger  int
	AmpPercent int
	SmallLevel int64
	TimerCache int // bytes for the whole operator (0 = leave the 1 GiB default)
	RankSeed   uint32
}

// Ack is one OperatorCheckpointComplete as the job saw it.
type Ack struct {
	Ckpt *snapshotpb.OperatorCheckpoint
	Snap Snapshot // model state of that operator's keys at the acknowledgement
}

// World is one in-process set of operators sharing storage and a handler.
type World struct {
	Dir     string
	H       *Handler
	Tune    Tuning
	memfs   *storage.MemoryFilesystem
	mu      sync.Mutex
	cond    *sync.Cond
	ops     map[string]*Op
	dead    []*Op
	dbs     map[any]bool
	Acks    map[uint64][]Ack // per checkpoint id, in arrival order
	regs    map[string]bool
	OnAck   func(a Ack)
	NeedsFn func(from, to, uri string) (bool, error, bool) // optional fault plan for NeedsTable: (answer, err, handled)
	// counters fed by the verif hook points
	FlushSwaps, CompactSwaps, Parked int
	Rotations, CompactIdle           int
	OnPoint                          func(name string, args ...any)
}

// Op is one real operator and what the harness knows about it.
type Op struct {
	ID       string
	O        *operator.Operator
	W        *World
	Timer    *ManualTimer
	cancel   context.CancelFunc
	done     chan struct{}
	Groups   int
	Index    int
	NumOps   int
	Senders  []string
	KeySpace *partitioning.KeySpace
}

// ManualTimer is a clocks.Timer fired by the harness.
type ManualTimer struct {
	mu sync.Mutex
	do func()
}

func (t *ManualTimer) Set(d time.Duration, do func()) { t.mu.Lock(); t.do = do; t.mu.Unlock() }
func (t *ManualTimer) Stop()                          { t.mu.Lock(); t.do = nil; t.mu.Unlock() }
func (t *ManualTimer) take() func()                   { t.mu.Lock(); defer t.mu.Unlock(); return t.do }

// FireAsync lets the batch time-out expire now: the callback runs in a goroutine
// of its own and hands its token to the operator whenever the operator's loop
// gets to it (a real timer does not wait for anybody either). Reports whether a
// timer was armed.
func (t *ManualTimer) FireAsync() bool {
	t.mu.Lock()
	cb := t.do
	t.do = nil
	t.mu.Unlock()
	if cb == nil {
		return false
	}
	go cb()
	return true
}

var worldSeq int

func NewWorld(tune Tuning) *World {
	worldSeq++
	base := os.Getenv("VERIF_SCRATCH")
	if base == "" {
		base = os.TempDir()
	}
	w := &World{Dir: fmt.Sprintf("%s/w%d-%d", base, os.Getpid(), worldSeq), H: NewHandler(), Tune: tune,
		memfs: storage.NewMemoryFilesystem(), ops: map[string]*Op{}, Acks: map[uint64][]Ack{}, regs: map[string]bool{}, dbs: map[any]bool{}}
	w.cond = sync.NewCond(&w.mu)
	w.installHooks()
	return w
}

func (w *World) installHooks() {
	verifhook.SetPoint(func(name string, args ...any) {
		w.mu.Lock()
		// Events of databases of an earlier case (still finishing a task) are not ours:
		// a database's first event is always its first rotation.
		if strings.HasPrefix(name, "dkv.") && len(args) > 0 {
			if name == "dkv.rotate" {
				w.dbs[args[0]] = true
			} else if !w.dbs[args[0]] {
				w.mu.Unlock()
				return
			}
		}
		switch name {
		case "dkv.rotate":
			w.Rotations++
		case "dkv.compact.idle":
			w.CompactIdle++
		case "dkv.flush.swapped":
			w.FlushSwaps++
		case "dkv.compact.swapped":
			w.CompactSwaps++
		case "operator.align.parked":
			w.Parked++
		}
		cb := w.OnPoint
		w.cond.Broadcast()
		w.mu.Unlock()
		if cb != nil {
			cb(name, args...)
		}
	})
	rank := w.Tune.RankSeed | 1
	var mu sync.Mutex
	verifhook.SetTuner(func(name string, v any) {
		switch name {
		case "dkv.options":
			o := v.(*dkv.DBOptions)
			// keep all operator storage in one shared in-memory file system, addressed
			// by the directory the operator asked for
			if lf, ok := o.FileSystem.(*storage.LocalFilesystem); ok {
				o.FileSystem = w.memfs.WithWorkingDir(lf.Dir)
			}
			if w.Tune.MemTable > 0 {
				o.MemTableSize = uint64(w.Tune.MemTable)
				o.MaxWALSize = uint64(w.Tune.MemTable * 4)
			}
			if w.Tune.TargetFile > 0 {
				o.TargetFileSize = uint64(w.Tune.TargetFile)
			}
			if w.Tune.L0Trigger > 0 {
				o.L0TableNumCompactionTrigger = w.Tune.L0Trigger
			}
		case "dkv.compactor":
			c := v.(*sst.Compactor)
			if w.Tune.AmpPercent > 0 {
				c.MaxSizeAmplificationPercent = w.Tune.AmpPercent
			}
			if w.Tune.SmallLevel > 0 {
				c.SmallestLevelSize = w.Tune.SmallLevel
			}
		case "operator.timer_cache_bytes":
			if w.Tune.TimerCache > 0 {
				*(v.(*uint64)) = uint64(w.Tune.TimerCache)
			}
		case "ziptree.rank":
			mu.Lock()
			rank = rank*1664525 + 1013904223
			*(v.(*uint32)) = rank >> 8
			mu.Unlock()
		}
	})
}

// Close stops every operator and removes the hooks and scratch files.
func (w *World) Close() {
	w.mu.Lock()
	ops := make([]*Op, 0, len(w.ops))
	for _, o := range w.ops {
		ops = append(ops, o)
	}
	w.mu.Unlock()
	for _, o := range ops {
		o.Stop()
	}
	w.Quiesce(5 * time.Second)
	verifhook.SetTuner(nil)
	verifhook.SetPoint(nil)
	os.RemoveAll(w.Dir)
}

// Quiesce waits until every DKV background task in this world has finished
// (every rotation was flushed and every flush's compaction went idle).
func (w *World) Quiesce(d time.Duration) bool {
	deadline := time.Now().Add(d)
	w.mu.Lock()
	defer w.mu.Unlock()
	for !(w.Rotations == w.FlushSwaps && w.CompactIdle == w.FlushSwaps) {
		if time.Now().After(deadline) {
			return false
		}
		w.mu.Unlock()
		time.Sleep(50 * time.Microsecond)
		w.mu.Lock()
	}
	return true
}

// Counters returns the hook-fed counters.
func (w *World) Counters() (flushSwaps, compactSwaps, parked int) {
	w.mu.Lock()
	defer w.mu.Unlock()
	return w.FlushSwaps, w.CompactSwaps, w.Parked
}

// MemFS gives direct access to the shared storage (for inspection with plain dkv.Open).
func (w *World) MemFS() *storage.MemoryFilesystem { return w.memfs }

// ---- fake job

type job struct{ w *World }

func (j job) RegisterSourceRunner(context.Context, *jobpb.NodeIdentity) error   { return nil }
func (j job) DeregisterSourceRunner(context.Context, *jobpb.NodeIdentity) error { return nil }
func (j job) RegisterOperator(ctx context.Context, n *jobpb.NodeIdentity) error {
	j.w.mu.Lock()
	j.w.regs[n.Id] = true
	j.w.cond.Broadcast()
	j.w.mu.Unlock()
	return nil
}
func (j job) DeregisterOperator(context.Context, *jobpb.NodeIdentity) error { return nil }
func (j job) OperatorCheckpointComplete(ctx context.Context, req *snapshotpb.OperatorCheckpoint) error {
	w := j.w
	w.mu.Lock()
	op := w.ops[req.OperatorId]
	w.mu.Unlock()
	a := Ack{Ckpt: req}
	if op != nil {
		a.Snap = w.H.SnapshotOf(op.Owns)
	}
	w.mu.Lock()
	w.Acks[req.CheckpointId] = append(w.Acks[req.CheckpointId], a)
	cb := w.OnAck
	w.cond.Broadcast()
	w.mu.Unlock()
	if cb != nil {
		cb(a)
	}
	return nil
}
func (j job) OnSourceRunnerCheckpointComplete(context.Context, *jobpb.SourceRunnerCheckpointCompleteRequest) error {
	return nil
}
func (j job) NotifySplitsFinished(context.Context, string, []string) error { return nil }

var _ proto.Job = job{}

// ---- neighbour clients (proto.Operator over in-process calls)

type opClient struct {
	w      *World
	sender string
	node   *jobpb.NodeIdentity
}

func (c *opClient) ID() string   { return c.node.Id }
func (c *opClient) Host() string { return c.node.Host }
func (c *opClient) target() *Op {
	c.w.mu.Lock()
	defer c.w.mu.Unlock()
	return c.w.ops[c.node.Id]
}
func (c *opClient) HandleEventBatch(ctx context.Context, b []*workerpb.Event) error {
	for _, e := range b {
		if err := c.target().O.HandleEvent(ctx, c.sender, e); err != nil {
			return err
		}
	}
	return nil
}
func (c *opClient) Deploy(ctx context.Context, r *workerpb.DeployOperatorRequest) error {
	t := c.target()
	if t == nil {
		return fmt.Errorf("no such operator %s", c.node.Id)
	}
	return t.Deploy(r)
}
func (c *opClient) UpdateRetainedCheckpoints(ctx context.Context, ids []uint64) error {
	return c.target().O.HandleRemoveCheckpoints(ctx, &workerpb.UpdateRetainedCheckpointsRequest{CheckpointIds: ids})
}
func (c *opClient) NeedsTable(ctx context.Context, uri string) (bool, error) {
	if c.w.NeedsFn != nil {
		if ans, err, handled := c.w.NeedsFn(c.sender, c.node.Id, uri); handled {
			return ans, err
		}
	}
	t := c.target()
	if t == nil {
		return false, fmt.Errorf("operator %s unreachable", c.node.Id)
	}
	return t.O.HandleNeedsTable(uri), nil
}

// Client returns a proto.Operator for the named operator (as the job or a
// neighbour would hold).
func (w *World) Client(sender, id string) proto.Operator {
	return &opClient{w, sender, &jobpb.NodeIdentity{Id: id, Host: id}}
}

// ---- operators

// StartOp creates and starts a real operator.
func (w *World) StartOp(id string, batch batching.EventBatcherParams) (*Op, error) {
	tm := &ManualTimer{}
	batch.Timer = tm
	if batch.MaxDelay == 0 {
		batch.MaxDelay = time.Hour // the manual timer never fires by itself
	}
	o := operator.NewOperator(operator.NewOperatorParams{
		ID: id, Host: id, Job: job{w}, UserHandler: w.H, EventBatching: batch, Clock: clocks.NewFrozenClock(),
		NeighborOperatorFactory: func(sender string, n *jobpb.NodeIdentity) proto.Operator { return &opClient{w, sender, n} },
	})
	ctx, cancel := context.WithCancel(context.Background())
	op := &Op{ID: id, O: o, W: w, Timer: tm, cancel: cancel, done: make(chan struct{})}
	w.mu.Lock()
	w.ops[id] = op
	w.mu.Unlock()
	go func() { defer close(op.done); o.Start(ctx) }()
	// wait until it registered (Start has then created the batcher's predecessor state)
	deadline := time.Now().Add(10 * time.Second)
	w.mu.Lock()
	for !w.regs[id] {
		if time.Now().After(deadline) {
			w.mu.Unlock()
			return nil, &hx.Inconclusive{Why: "operator did not register"}
		}
		w.mu.Unlock()
		time.Sleep(50 * time.Microsecond)
		w.mu.Lock()
	}
	w.mu.Unlock()
	return op, nil
}

// Stop halts the operator (no deregistration) and forgets it.
func (op *Op) Stop() {
	op.O.Halt()
	op.cancel()
	select {
	case <-op.done:
	case <-time.After(5 * time.Second):
	}
	op.W.mu.Lock()
	if op.W.ops[op.ID] == op {
		delete(op.W.ops, op.ID)
	}
	// A stopped operator stands for a process that died: its objects must never
	// run their cleanups (which delete files). Keep them reachable, and let the
	// cleanups of tables that were already obsolete run now, before a successor
	// can reuse their file names.
	op.W.dead = append(op.W.dead, op)
	op.W.mu.Unlock()
}

// SettleDead must be called after stopping operators and before starting their
// successors: a dead process has no background tasks, and the cleanups of its
// already obsolete tables run now, before file names can be reused.
func (w *World) SettleDead() {
	if !w.Quiesce(10*time.Second) && os.Getenv("VERIF_DEBUG_STALL") != "" {
		buf := make([]byte, 1<<16)
		buf = buf[:runtime.Stack(buf, true)]
		fmt.Printf("DEBUG quiesce failed rot=%d swaps=%d idle=%d\n%s\n", w.Rotations, w.FlushSwaps, w.CompactIdle, buf)
	}
	for i := 0; i < 2; i++ {
		runtime.GC()
		time.Sleep(100 * time.Microsecond)
	}
}

type nopSink struct{}

func (nopSink) Write([]byte) error { return nil }

// Deploy hands a deploy request to the operator and records the layout.
func (op *Op) Deploy(r *workerpb.DeployOperatorRequest) error {
	op.Groups = int(r.KeyGroupCount)
	op.NumOps = len(r.Operators)
	op.Senders = r.SourceRunnerIds
	for i, n := range r.Operators {
		if n.Id == op.ID {
			op.Index = i
		}
	}
	op.KeySpace = partitioning.NewKeySpace(op.Groups, op.NumOps)
	return op.O.HandleDeploy(context.Background(), r, nopSink{})
}

// DeployFresh deploys a single-operator or multi-operator assembly without checkpoints.
func (w *World) DeployRequest(opIDs, senders []string, groups int, ckpts []*snapshotpb.OperatorCheckpoint) *workerpb.DeployOperatorRequest {
	ids := make([]*jobpb.NodeIdentity, len(opIDs))
	for i, id := range opIDs {
		ids[i] = &jobpb.NodeIdentity{Id: id, Host: id}
	}
	return &workerpb.DeployOperatorRequest{Operators: ids, SourceRunnerIds: senders, Checkpoints: ckpts,
		KeyGroupCount: int32(groups), StorageLocation: w.Dir + "/work"}
}

// Owns reports whether the operator's key-group range holds the subject key.
func (op *Op) Owns(key []byte) bool {
	return op.KeySpace != nil && op.KeySpace.RangeIndex(key) == op.Index
}

// Send delivers one event from a sender; it returns when the operator has
// accepted it (which for keyed events means "added to the current batch").
func (op *Op) Send(sender string, ev *workerpb.Event) error {
	return op.O.HandleEvent(context.Background(), sender, ev)
}

// SendCtx is Send with the request's context: the server cancels it when the
// calling source runner goes away while the request is being handled.
func (op *Op) SendCtx(ctx context.Context, sender string, ev *workerpb.Event) error {
	return op.O.HandleEvent(ctx, sender, ev)
}

func Keyed(key []byte, sc Script, ts int64) *workerpb.Event {
	return &workerpb.Event{Event: &workerpb.Event_KeyedEvent{KeyedEvent: &handlerpb.KeyedEvent{
		Key: key, Value: sc.Marshal(), Timestamp: timestamppb.New(time.Unix(0, ts))}}}
}

func Watermark(ts int64) *workerpb.Event {
	return &workerpb.Event{Event: &workerpb.Event_Watermark{Watermark: &workerpb.Watermark{Timestamp: timestamppb.New(time.Unix(0, ts))}}}
}

func Barrier(id uint64) *workerpb.Event {
	return &workerpb.Event{Event: &workerpb.Event_CheckpointBarrier{CheckpointBarrier: &workerpb.CheckpointBarrier{CheckpointId: id}}}
}

// Flush makes the operator hand its current (partial) batch to the handler:
// it fires the batch time-out and then sends an idempotent watermark, which is
// processed after the time-out.
func (op *Op) Flush(sender string, currentWM int64) error {
	if cb := op.Timer.take(); cb != nil {
		done := make(chan struct{})
		go func() { cb(); close(done) }()
		select {
		case <-done:
		case <-time.After(10 * time.Second):
			return &hx.Inconclusive{Why: "batch time-out token was not consumed"}
		}
	}
	return op.Send(sender, Watermark(currentWM))
}

// WaitAcks waits until n operators acknowledged checkpoint id.
func (w *World) WaitAcks(id uint64, n int, d time.Duration) bool {
	deadline := time.Now().Add(d)
	w.mu.Lock()
	defer w.mu.Unlock()
	for len(w.Acks[id]) < n {
		if time.Now().After(deadline) {
			return false
		}
		w.mu.Unlock()
		time.Sleep(50 * time.Microsecond)
		w.mu.Lock()
	}
	return true
}

func (w *World) AcksOf(id uint64) []Ack {
	w.mu.Lock()
	defer w.mu.Unlock()
	return append([]Ack(nil), w.Acks[id]...)
}

// FakeSR is a stand-in source runner that only carries an upstream id.
func FakeSR(id string) proto.SourceRunner { return fakeSR{id: id} }

// ReadAll reads a whole file of the shared storage.
func ReadAll(fs *storage.MemoryFilesystem, uri string) []byte {
	f := fs.Open(uri)
	var out []byte
	buf := make([]byte, 8192)
	var off int64
	for {
		n, err := f.ReadAt(buf, off)
		out = append(out, buf[:n]...)
		off += int64(n)
		if err != nil || n == 0 {
			return out
		}
	}
}
