// Package c11 checks C11: watermarks are monotone and operators act on the
// minimum of their upstreams.
package c11

import (
	"testing"
	"time"

	"pgregory.net/rapid"
	"reduction.dev/reduction/workers/wmark"
	"verifharness/hx"
	"verifharness/opx"
)

// ---------------------------------------------------------------- the watermarker

type wprog struct{ TS []int64 }

func genW(rt *rapid.T) wprog {
	return wprog{TS: rapid.SliceOfN(rapid.OneOf(rapid.Int64Range(1, 50), rapid.Int64Range(1, 1<<50)), 1, 40).Draw(rt, "ts")}
}

func execW(p wprog, c *hx.Case) error {
	w := &wmark.Watermarker{}
	var maxTS int64
	prev := w.CurrentWatermark()
	outOfOrder := false
	for i, ts := range p.TS {
		if ts < maxTS {
			outOfOrder = true
		}
		w.AdvanceTime(time.Unix(0, ts))
		maxTS = max(maxTS, ts)
		cur := w.CurrentWatermark()
		if cur.Before(prev) {
			return hx.Errf("after event %d (timestamp %d) the watermark went back from %v to %v", i, ts, prev.UnixNano(), cur.UnixNano())
		}
		if !cur.Before(time.Unix(0, maxTS)) {
			return hx.Errf("after event %d the watermark %d reached the largest forwarded timestamp %d", i, cur.UnixNano(), maxTS)
		}
		// follows closely: with no allowed lateness it trails the maximum by one nanosecond
		if cur.UnixNano() != maxTS-1 {
			return hx.Errf("after event %d the watermark is %d, expected to follow the largest timestamp %d closely (max-1ns)", i, cur.UnixNano(), maxTS)
		}
		prev = cur
	}
	if outOfOrder {
		c.NonTrivial()
	}
	return nil
}

func TestPropWatermarker(t *testing.T) {
	hx.Run(t, hx.Spec{Prop: "C11", Rule: "1..40 event timestamps in arbitrary order fed to wmark.Watermarker: the watermark never decreases, stays strictly below the largest timestamp seen and equals it minus 1ns; non-trivial = an out-of-order timestamp"}, genW, execW)
}

// ---------------------------------------------------------------- the operator's minimum

var kinds = []string{"event", "event", "event", "wm", "wm", "wm", "wm", "flush", "flush", "checkpoint", "probe"}

func genOp(rt *rapid.T) opx.History { return opx.GenHistory(rt, kinds, 2, 4, true) }

func execOp(p opx.History, c *hx.Case) error {
	st, err := opx.ExecHistory(p, c)
	if err != nil {
		return err
	}
	c.LabelIf(st.MinChanges > 0, "minimum-changes-hands")
	if p.Senders >= 2 && st.MinChanges > 0 && st.WMBatches > 2 {
		c.NonTrivial()
	}
	return nil
}

func TestPropOperatorMinimum(t *testing.T) {
	hx.Run(t, hx.Spec{Prop: "C11", Persist: true, Rule: "1..2 real Operators with 1..4 upstream ids: 3..60 steps interleaving keyed events (setting timers), per-upstream watermarks, flushes and checkpoints; every ProcessEventBatch request must carry the minimum of the latest upstream watermarks (an unreported upstream = the epoch), no TimerExpired may exceed it, and after a flush nothing due may be pending; non-trivial = >=2 upstreams whose minimum changes hands and >2 handler invocations checked"}, genOp, execOp)
}
