// Package c11 checks C11: watermarks are monotone and operators act on the
// minimum of their upstreams.
package c11

import (
	"testing"
	"time"

	"pgregory.net/rapid"
	"reduction.dev/reduction/workers/wmark"
	"verifharness/hx"
	"verifharness/opx"
)

// ---------------------------------------------------------------- the watermarker

// TS is an event timestamp: seconds and nanoseconds since the Unix epoch, as
// time.Unix takes them (any sign; the Go, and protobuf, range is years 1..9999).
type TS struct{ Sec, Nsec int64 }

func (t TS) Time() time.Time { return time.Unix(t.Sec, t.Nsec) }

type wprog struct{ TS []TS }

func genW(rt *rapid.T) wprog {
	sec := rapid.OneOf(
		rapid.Just(int64(0)),                                // within a second of the epoch
		rapid.Int64Range(-2, 2),                             // around the epoch
		rapid.Int64Range(1, 1<<31),                          // ordinary dates
		rapid.Int64Range(-3_000_000_000, -1),                // before 1970
		rapid.Int64Range(1<<33, 253_402_300_799),            // beyond what int64 nanoseconds can hold
		rapid.Int64Range(-62_135_596_800+1, -9_300_000_000), // before 1678
	)
	nsec := rapid.OneOf(rapid.Int64Range(0, 50), rapid.Int64Range(0, 999_999_999))
	n := rapid.IntRange(1, 40).Draw(rt, "n")
	p := wprog{}
	for i := 0; i < n; i++ {
		p.TS = append(p.TS, TS{sec.Draw(rt, "sec"), nsec.Draw(rt, "nsec")})
	}
	return p
}

func execW(p wprog, c *hx.Case) error {
	w := &wmark.Watermarker{}
	var maxTS time.Time
	var prev time.Time
	outOfOrder, preEpoch, beyondNanos := false, false, false
	for i, e := range p.TS {
		ts := e.Time()
		if i > 0 && ts.Before(maxTS) {
			outOfOrder = true
		}
		if e.Sec < 0 {
			preEpoch = true
		}
		if e.Sec > 1<<33 || e.Sec < -9_300_000_000 {
			beyondNanos = true
		}
		w.AdvanceTime(ts)
		if i == 0 || ts.After(maxTS) {
			maxTS = ts
		}
		cur := w.CurrentWatermark()
		if i > 0 && cur.Before(prev) {
			return hx.Errf("after event %d (timestamp %v) the watermark went back from %v to %v", i, ts.UTC(), prev.UTC(), cur.UTC())
		}
		if !cur.Before(maxTS) {
			return hx.Errf("after event %d the watermark %v reached the largest forwarded timestamp %v", i, cur.UTC(), maxTS.UTC())
		}
		// follows closely: with no allowed lateness it trails the maximum by one nanosecond
		if !cur.Equal(maxTS.Add(-time.Nanosecond)) {
			return hx.Errf("after event %d the watermark is %v, expected to follow the largest timestamp %v closely (max-1ns)", i, cur.UTC(), maxTS.UTC())
		}
		prev = cur
	}
	c.LabelIf(preEpoch, "pre-epoch")
	c.LabelIf(beyondNanos, "outside-int64-nanoseconds")
	if outOfOrder {
		c.NonTrivial()
	}
	return nil
}

func TestPropWatermarker(t *testing.T) {
	hx.Run(t, hx.Spec{Prop: "C11", Rule: "1..40 event timestamps in arbitrary order fed to wmark.Watermarker, drawn from the whole time.Time range a record can carry (around and before the Unix epoch, ordinary dates, dates outside the int64-nanosecond window 1678..2262): the watermark never decreases, stays strictly below the largest timestamp seen and equals it minus 1ns; non-trivial = an out-of-order timestamp"}, genW, execW)
}

// ---------------------------------------------------------------- the operator's minimum

var kinds = []string{"event", "event", "event", "wm", "wm", "wm", "wm", "flush", "flush", "checkpoint", "probe", "complete"}

func genOp(rt *rapid.T) opx.History { return opx.GenHistory(rt, kinds, 2, 4, true) }

func execOp(p opx.History, c *hx.Case) error {
	st, err := opx.ExecHistory(p, c)
	if err != nil {
		return err
	}
	c.LabelIf(st.MinChanges > 0, "minimum-changes-hands")
	c.LabelIf(st.Completed > 0, "an-upstream-completed-while-others-read-on")
	if p.Senders >= 2 && st.MinChanges > 0 && st.WMBatches > 2 {
		c.NonTrivial()
	}
	return nil
}

func TestPropOperatorMinimum(t *testing.T) {
	hx.Run(t, hx.Spec{Prop: "C11", Persist: true, Rule: "1..2 real Operators with 1..4 upstream ids: 3..60 steps interleaving keyed events (setting timers), per-upstream watermarks, flushes, checkpoints and upstream runners whose source is exhausted (SourceComplete; they keep bounding the minimum with their last watermark); every ProcessEventBatch request must carry the minimum of the latest upstream watermarks (an unreported upstream = the epoch), no TimerExpired may exceed it, and after a flush nothing due may be pending; non-trivial = >=2 upstreams whose minimum changes hands and >2 handler invocations checked"}, genOp, execOp)
}
