// Package c05 checks C05: key routing agrees with state ownership.
package c05

import (
	"encoding/binary"
	"runtime"
	"strings"
	"testing"
	"time"

	"reduction.dev/reduction/batching"
	"reduction.dev/reduction/dkv"
	"reduction.dev/reduction/dkv/recovery"
	"verifharness/opx"

	"pgregory.net/rapid"
	"reduction.dev/reduction/partitioning"
	"reduction.dev/reduction/util/murmur"
	"verifharness/hx"
	"verifharness/refimpl"
)

type ksProg struct {
	Groups int
	Ops    int
	Keys   [][]byte
}

func genKS(rt *rapid.T) ksProg {
	groups := rapid.OneOf(
		rapid.SampledFrom([]int{1, 2, 3, 7, 255, 256, 257, 4096, 32767, 32768, 65521, 65534, 65535}),
		rapid.IntRange(1, 64), rapid.IntRange(1, 65535)).Draw(rt, "groups")
	ops := rapid.OneOf(rapid.IntRange(1, 8), rapid.IntRange(1, min(groups+3, 65535)),
		rapid.SampledFrom([]int{groups, min(groups+1, 65535), max(groups-1, 1)})).Draw(rt, "ops")
	return ksProg{Groups: groups, Ops: ops,
		Keys: rapid.SliceOfN(rapid.SliceOfN(rapid.Byte(), 0, 40), 1, 30).Draw(rt, "keys")}
}

func execKS(p ksProg, c *hx.Case) error {
	ks := partitioning.NewKeySpace(p.Groups, p.Ops)
	ranges := ks.KeyGroupRanges()
	if len(ranges) != p.Ops {
		return hx.Errf("KeySpace(%d,%d) has %d ranges", p.Groups, p.Ops, len(ranges))
	}
	next, minSize, maxSize := 0, 1<<30, 0
	for i, r := range ranges {
		if r.Start != next || r.End < r.Start {
			return hx.Errf("KeySpace(%d,%d) range %d = [%d,%d) is not contiguous with the previous end %d", p.Groups, p.Ops, i, r.Start, r.End, next)
		}
		next = r.End
		minSize, maxSize = min(minSize, r.Size()), max(maxSize, r.Size())
	}
	if next != p.Groups {
		return hx.Errf("KeySpace(%d,%d) ranges cover [0,%d), not every group", p.Groups, p.Ops, next)
	}
	if maxSize-minSize > 1 {
		return hx.Errf("KeySpace(%d,%d) range sizes differ by %d", p.Groups, p.Ops, maxSize-minSize)
	}
	for _, k := range p.Keys {
		g := int(ks.KeyGroup(k))
		if want := refimpl.KeyGroup(k, p.Groups); g != want {
			return hx.Errf("KeyGroup(%x) with %d groups = %d, MurmurHash3-32(seed 0) mod count = %d", k, p.Groups, g, want)
		}
		idx := ks.RangeIndex(k)
		if idx < 0 || idx >= len(ranges) || !ranges[idx].IncludesKeyGroup(partitioning.KeyGroup(g)) {
			return hx.Errf("RangeIndex(%x)=%d but group %d is not in range %v", k, idx, g, ranges[min(max(idx, 0), len(ranges)-1)])
		}
		owners := 0
		for _, r := range ranges {
			if r.IncludesKeyGroup(partitioning.KeyGroup(g)) {
				owners++
			}
		}
		if owners != 1 {
			return hx.Errf("group %d is in %d ranges", g, owners)
		}
		// the two-byte big-endian prefix persisted with state round-trips
		b := make([]byte, 2)
		partitioning.KeyGroup(g).PutBytes(b)
		if int(b[0])<<8|int(b[1]) != g || int(partitioning.KeyGroupFromBytes(b)) != g {
			return hx.Errf("group %d encodes as %x", g, b)
		}
	}
	tails := false
	for _, k := range p.Keys {
		tails = tails || len(k)%4 != 0
	}
	if (p.Groups%p.Ops != 0 || p.Ops > p.Groups) && tails {
		c.NonTrivial()
	}
	c.LabelIf(p.Ops > p.Groups, "ops>groups")
	return nil
}

func TestPropKeySpace(t *testing.T) {
	hx.Run(t, hx.Spec{Prop: "C05", Rule: "group counts 1..65535 (biased to 1,2,primes,255..257,65535), operator counts 1..count+3, <=30 keys of 0..40 arbitrary bytes: ranges contiguous/covering/sizes within 1, KeyGroup == independent MurmurHash3-32(seed 0) mod count, RangeIndex == the unique range containing the key's group; non-trivial = count not divisible by (or smaller than) operators and a key whose length is not a multiple of 4"}, genKS, execKS)
}

type hashProg struct {
	Data []byte
	Seed uint32
}

func genHash(rt *rapid.T) hashProg {
	return hashProg{Data: rapid.SliceOfN(rapid.Byte(), 0, 70).Draw(rt, "data"),
		Seed: rapid.OneOf(rapid.Just(uint32(0)), rapid.Uint32Range(0, 7), rapid.Uint32()).Draw(rt, "seed")}
}

func execHash(p hashProg, c *hx.Case) error {
	// murmur.Hash takes an int seed; the bloom filter uses 0..4, the key space 0.
	if got, want := murmur.Hash(p.Data, int(p.Seed)), refimpl.Murmur3_32(p.Data, p.Seed); got != want {
		return hx.Errf("murmur.Hash(%x, %d) = %#x, reference %#x", p.Data, p.Seed, got, want)
	}
	if len(p.Data)%4 != 0 && len(p.Data) > 4 {
		c.NonTrivial()
	}
	return nil
}

func TestPropMurmur(t *testing.T) {
	hx.Run(t, hx.Spec{Prop: "C05", Rule: "murmur.Hash vs an independent MurmurHash3_x86_32 over 0..70 arbitrary bytes and seeds {0, 0..7, any}; non-trivial = more than one block and a non-empty tail"}, genHash, execHash)
}

// Published MurmurHash3_x86_32 vectors: they pin both the implementation and
// the reference, so a self-consistent change of both is impossible.
var golden = []struct {
	data string
	seed uint32
	want uint32
}{
	{"", 0, 0}, {"", 1, 0x514E28B7}, {"", 0xffffffff, 0x81F16F39},
	{"\xff\xff\xff\xff", 0, 0x76293B50}, {"\x21\x43\x65\x87", 0, 0xF55B516B},
	{"\x21\x43\x65\x87", 0x5082EDEE, 0x2362F9DE}, {"\x21\x43\x65", 0, 0x7E4A8634},
	{"\x21\x43", 0, 0xA0F7B07A}, {"\x21", 0, 0x72661CF4}, {"\x00\x00\x00\x00", 0, 0x2362F9DE},
	{"\x00\x00\x00", 0, 0x85F0B427}, {"\x00\x00", 0, 0x30F4C306}, {"\x00", 0, 0x514E28B7},
	{"Hello, world!", 1234, 0xfaf6cdb3}, {"Hello, world!", 0x9747b28c, 0x24884CBA},
	{"The quick brown fox jumps over the lazy dog", 0x9747b28c, 0x2FA826CD},
	{"aaaa", 0x9747b28c, 0x5A97808A}, {"aaa", 0x9747b28c, 0x283E0130}, {"aa", 0x9747b28c, 0x5D211726},
	{"a", 0x9747b28c, 0x7FA09EA6}, {"abcd", 0x9747b28c, 0xF0478627}, {"abc", 0x9747b28c, 0xC84A62DD},
	{"ab", 0x9747b28c, 0x74875592},
}

type goldenProg struct{ Index int }

func TestPropGolden(t *testing.T) {
	hx.Run(t, hx.Spec{Prop: "C05", Rule: "23 published MurmurHash3_x86_32 vectors (empty input, 1-7 byte tails, all-0xff, several seeds) checked against both murmur.Hash and the harness reference; every vector is non-trivial"},
		func(rt *rapid.T) goldenProg { return goldenProg{rapid.IntRange(0, len(golden)-1).Draw(rt, "i")} },
		func(p goldenProg, c *hx.Case) error {
			v := golden[p.Index]
			if got := refimpl.Murmur3_32([]byte(v.data), v.seed); got != v.want {
				return hx.Errf("harness reference Murmur3_32(%q,%#x)=%#x want %#x", v.data, v.seed, got, v.want)
			}
			if got := murmur.Hash([]byte(v.data), int(v.seed)); got != v.want {
				return hx.Errf("murmur.Hash(%q,%#x)=%#x, published value %#x", v.data, v.seed, got, v.want)
			}
			c.NonTrivial()
			return nil
		})
}

// ---------------------------------------------------------------- what an operator persists

type persistProg struct {
	Groups int
	NOps   int
	Keys   [][]byte
	Prev   int // the worker processes were deployed before, idle, in an assembly of Prev operators (0 = never): a job that was rescaled while its workers kept running
}

func genPersist(rt *rapid.T) persistProg {
	return persistProg{
		Groups: rapid.SampledFrom([]int{1, 2, 3, 7, 16, 64, 255, 256, 257, 1000}).Draw(rt, "groups"),
		NOps:   rapid.IntRange(1, 3).Draw(rt, "nops"),
		Keys:   rapid.SliceOfN(rapid.SliceOfN(rapid.Byte(), 0, 9), 1, 12).Draw(rt, "keys"),
		Prev:   rapid.SampledFrom([]int{0, 0, 1, 2, 3, 4}).Draw(rt, "prev"),
	}
}

func execPersist(p persistProg, c *hx.Case) error {
	w := opx.NewWorld(opx.Tuning{MemTable: 256, TargetFile: 128, L0Trigger: 2})
	defer w.Close()
	ids := []string{"op0", "op1", "op2"}[:p.NOps]
	var ops []*opx.Op
	for _, id := range ids {
		op, err := w.StartOp(id, batching.EventBatcherParams{MaxSize: 1})
		if err != nil {
			return err
		}
		ops = append(ops, op)
	}
	redeployed := 0
	if p.Prev > 0 {
		// an earlier deployment of the same processes with another operator count;
		// it saw no events, so nothing of it is in flight when the next one comes
		prev := []string{"op0", "op1", "op2", "op3"}[:p.Prev]
		for i, op := range ops {
			if i < p.Prev {
				if err := op.Deploy(w.DeployRequest(prev, []string{"sr"}, p.Groups, nil)); err != nil {
					return hx.Errf("earlier deploy: %v", err)
				}
				redeployed++
			}
		}
	}
	for _, op := range ops {
		if err := op.Deploy(w.DeployRequest(ids, []string{"sr"}, p.Groups, nil)); err != nil {
			return hx.Errf("deploy: %v", err)
		}
	}
	c.LabelIf(redeployed > 0 && p.Prev != p.NOps, "redeployed-in-place-with-another-operator-count")
	ks := partitioning.NewKeySpace(p.Groups, p.NOps)
	sentTo := map[string]int{}
	for i, k := range p.Keys {
		// route as a source runner does: by the engine's KeySpace
		idx := ks.RangeIndex(k)
		sentTo[string(k)] = idx
		sc := opx.Script{ID: i + 1, Muts: []opx.Mut{{NS: "n", Key: []byte("e"), Val: []byte{byte(i)}}}, Timers: []int64{int64(10 + i)}}
		if err := ops[idx].Send("sr", opx.Keyed(k, sc, 1)); err != nil {
			return hx.Errf("HandleEvent: %v", err)
		}
	}
	for _, op := range ops {
		if err := op.Send("sr", opx.Barrier(1)); err != nil {
			return hx.Errf("barrier: %v", err)
		}
	}
	if !w.WaitAcks(1, p.NOps, 10*time.Second) {
		return &hx.Inconclusive{Why: "checkpoint not acknowledged"}
	}
	if v := w.H.Violations(); len(v) > 0 {
		return hx.Errf("%s", strings.Join(v, "; "))
	}
	found := map[string]int{}
	for _, a := range w.AcksOf(1) {
		r := a.Ckpt.KeyGroupRange
		db := dkv.Open(dkv.DBOptions{FileSystem: w.MemFS()}, []recovery.CheckpointHandle{{CheckpointID: 1, URI: a.Ckpt.DkvFileUri}})
		var scanErr error
		for e := range db.ScanPrefix(nil, &scanErr) {
			k := e.Key()
			if len(k) < 3 {
				return hx.Errf("operator %s persisted a key shorter than its prefix: %x", a.Ckpt.OperatorId, k)
			}
			g := int(binary.BigEndian.Uint16(k[:2]))
			if g < int(r.Start) || g >= int(r.End) {
				return hx.Errf("operator %s owns groups [%d,%d) but persisted an entry under group %d (%x)", a.Ckpt.OperatorId, r.Start, r.End, g, k)
			}
			var subject []byte
			switch k[2] {
			case 0x00:
				n := int(binary.BigEndian.Uint32(k[3:7]))
				subject = k[7 : 7+n]
			case 0x01:
				subject = k[11:]
			default:
				return hx.Errf("unknown schema byte in persisted key %x", k)
			}
			if want := refimpl.KeyGroup(subject, p.Groups); g != want {
				return hx.Errf("entry of subject key %x is stored under group %d, MurmurHash3-32 mod %d gives %d", subject, g, p.Groups, want)
			}
			found[string(subject)]++
		}
		if scanErr != nil {
			return hx.Errf("scanning checkpoint of %s: %v", a.Ckpt.OperatorId, scanErr)
		}
		runtime.KeepAlive(db)
		// the runner-side routing chose the operator whose range holds the group
		for k, idx := range sentTo {
			if ids[idx] == a.Ckpt.OperatorId {
				if g := refimpl.KeyGroup([]byte(k), p.Groups); g < int(r.Start) || g >= int(r.End) {
					return hx.Errf("key %x (group %d) was routed to %s which owns [%d,%d)", k, g, a.Ckpt.OperatorId, r.Start, r.End)
				}
			}
		}
	}
	for _, k := range p.Keys {
		if found[string(k)] < 2 { // one state entry and one timer
			return hx.Errf("key %x: %d of its 2 persisted entries (state, timer) found under its group", k, found[string(k)])
		}
	}
	if p.Groups%p.NOps != 0 && len(p.Keys) >= 3 {
		c.NonTrivial()
	}
	return nil
}

func TestPropPersistedPrefix(t *testing.T) {
	hx.Run(t, hx.Spec{Prop: "C05", Persist: true, Rule: "1..3 real operators over 1..1000 key groups (in two thirds of the cases deployed once before, idle, in an assembly of 1..4 operators) process one event per generated key (arbitrary bytes, routed by KeySpace.RangeIndex as a source runner does) that writes one state entry and one timer, then checkpoint; each operator's checkpoint is opened with plain dkv.Open and every persisted entry must sit under a two-byte big-endian group inside the operator's reported range and equal to the reference MurmurHash3-32 mod count of its subject key, and both entries of every key must be found; non-trivial = group count not divisible by the operator count and >=3 keys"}, genPersist, execPersist)
}

func FuzzMurmur(f *testing.F) {
	hx.Fuzz(f, hx.Spec{Prop: "C05"}, genHash, execHash)
}

func FuzzKeySpace(f *testing.F) {
	hx.Fuzz(f, hx.Spec{Prop: "C05"}, genKS, execKS)
}
