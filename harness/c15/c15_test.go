// Package c15 checks C15 (coordinator part): the job runs only on a full, live
// assembly, abandons it when a member is lost, redeploys from the latest
// checkpoint and keeps checkpointing afterwards.
package c15

import (
	"errors"
	"context"
	"fmt"
	"slices"
	"sort"
	"strings"
	"sync"
	"testing"
	"time"

	"pgregory.net/rapid"
	"reduction.dev/reduction-protocol/jobconfigpb"
	"reduction.dev/reduction/config"
	"reduction.dev/reduction/connectors"
	"reduction.dev/reduction/jobs"
	"reduction.dev/reduction/partitioning"
	"reduction.dev/reduction/proto"
	"reduction.dev/reduction/proto/jobpb"
	"reduction.dev/reduction/proto/snapshotpb"
	"reduction.dev/reduction/proto/workerpb"
	"reduction.dev/reduction/storage/snapshots"
	"verifharness/coord"
	"verifharness/hx"
)

type op struct {
	Kind string // startw | stopw | killw | tick | ack | partial | faildeploy | wait | sprace (a savepoint request, or with N odd the checkpoint timer's callback, that has seen the job running is overtaken by the loss of member W before it creates its checkpoint) | deploywin (another worker starts; the deployment that follows in this step, if any, is slow and member W leaves while it runs: N even = deregisters, odd = stops heartbeating)
	W    int    // worker index 0..5
	N    int
}
type prog struct {
	Workers       int // configured WorkerCount
	FromSavepoint bool
	Ops           []op
}

func gen(rt *rapid.T) prog {
	p := prog{Workers: rapid.IntRange(1, 3).Draw(rt, "workers"), FromSavepoint: rapid.IntRange(0, 2).Draw(rt, "fromsavepoint") == 0}
	n := rapid.IntRange(3, 40).Draw(rt, "n")
	for i := 0; i < n; i++ {
		p.Ops = append(p.Ops, op{
			Kind: rapid.SampledFrom([]string{"startw", "startw", "startw", "stopw", "killw", "tick", "tick", "ack", "ack", "partial", "faildeploy", "wait", "deploywin", "sprace"}).Draw(rt, "kind"),
			W:    rapid.IntRange(0, 5).Draw(rt, "w"),
			N:    rapid.IntRange(0, 3).Draw(rt, "n"),
		})
	}
	return p
}

// ---- recorded calls

type call struct {
	Kind   string // deploy-op | deploy-sr | assign | startckpt | retain
	Node   string
	Ops    []string // deploy: the assembly's operators
	SRs    []string
	Ckpts  []uint64 // deploy-op: checkpoint ids handed over
	Ranges [][2]int // deploy-op: the key-group range of each checkpoint part handed over
	Groups int      // deploy-op: key-group count of the request
	ID     uint64   // startckpt
	Splits []string
	At     time.Time
	Round  string
}

type world struct {
	mu       sync.Mutex
	calls    []call
	failNext map[string]bool
	// a deployment window: Deploy calls block until the harness lets them go
	cond       *sync.Cond
	holdDeploy bool
	blocked    int
	// a savepoint request that is overtaken: the next ID() call (the request is
	// collecting the assembly's member ids) blocks until the harness lets it go
	holdID    bool
	blockedID bool
}

func (w *world) idGate() {
	w.mu.Lock()
	if w.holdID {
		w.holdID = false // one call only: the job's own task queue asks for ids as well
		w.blockedID = true
		w.cond.Broadcast()
		for w.blockedID {
			w.cond.Wait()
		}
	}
	w.mu.Unlock()
}

// gate blocks a Deploy call while the window is held.
func (w *world) gate() {
	w.mu.Lock()
	if w.holdDeploy {
		w.blocked++
		w.cond.Broadcast()
		for w.holdDeploy {
			w.cond.Wait()
		}
	}
	w.mu.Unlock()
}

func (w *world) rec(c call) {
	w.mu.Lock()
	w.calls = append(w.calls, c)
	w.mu.Unlock()
}
func (w *world) snapshot() []call {
	w.mu.Lock()
	defer w.mu.Unlock()
	return append([]call(nil), w.calls...)
}

type fakeOp struct {
	*proto.UnimplementedOperator
	w  *world
	id string
}

func (f *fakeOp) ID() string   { f.w.idGate(); return f.id }
func (f *fakeOp) Host() string { return f.id }
func (f *fakeOp) Deploy(ctx context.Context, r *workerpb.DeployOperatorRequest) error {
	c := call{Kind: "deploy-op", Node: f.id, SRs: r.SourceRunnerIds}
	for _, o := range r.Operators {
		c.Ops = append(c.Ops, o.Id)
	}
	for _, k := range r.Checkpoints {
		c.Ckpts = append(c.Ckpts, k.CheckpointId)
		c.Ranges = append(c.Ranges, [2]int{int(k.GetKeyGroupRange().GetStart()), int(k.GetKeyGroupRange().GetEnd())})
	}
	c.Groups = int(r.KeyGroupCount)
	c.Round = strings.Join(c.Ops, ",") + "|" + strings.Join(c.SRs, ",")
	f.w.rec(c)
	f.w.gate()
	f.w.mu.Lock()
	fail := f.w.failNext[f.id]
	delete(f.w.failNext, f.id)
	f.w.mu.Unlock()
	if fail {
		return fmt.Errorf("injected deploy failure on %s", f.id)
	}
	return nil
}
func (f *fakeOp) UpdateRetainedCheckpoints(ctx context.Context, ids []uint64) error {
	f.w.rec(call{Kind: "retain", Node: f.id, Ckpts: ids})
	return nil
}

type fakeSR struct {
	*proto.UnimplementedSourceRunner
	w  *world
	id string
}

func (f *fakeSR) ID() string   { return f.id }
func (f *fakeSR) Host() string { return f.id }
func (f *fakeSR) Deploy(ctx context.Context, r *workerpb.DeploySourceRunnerRequest) error {
	c := call{Kind: "deploy-sr", Node: f.id}
	for _, o := range r.Operators {
		c.Ops = append(c.Ops, o.Id)
	}
	f.w.rec(c)
	f.w.gate()
	f.w.mu.Lock()
	fail := f.w.failNext[f.id]
	delete(f.w.failNext, f.id)
	f.w.mu.Unlock()
	if fail {
		return fmt.Errorf("injected deploy failure on %s", f.id)
	}
	return nil
}
func (f *fakeSR) AssignSplits(ctx context.Context, s []*workerpb.SourceSplit) error {
	c := call{Kind: "assign", Node: f.id}
	for _, x := range s {
		c.Splits = append(c.Splits, x.SplitId)
	}
	f.w.rec(c)
	return nil
}
func (f *fakeSR) StartCheckpoint(ctx context.Context, id uint64) error {
	f.w.rec(call{Kind: "startckpt", Node: f.id, ID: id})
	return nil
}

// ---- source: one split per runner

type srcCfg struct{}

func (srcCfg) Validate() error { return nil }
func (srcCfg) ProtoMessage() *jobconfigpb.Source {
	return &jobconfigpb.Source{Config: &jobconfigpb.Source_Embedded{Embedded: &jobconfigpb.EmbeddedSource{}}}
}
func (srcCfg) NewSourceReader(connectors.SourceReaderHooks) connectors.SourceReader { return nil }
func (srcCfg) NewSourceSplitter(ids []string, hooks connectors.SourceSplitterHooks, errc chan<- error) connectors.SourceSplitter {
	return &splitter{ids: ids, hooks: hooks}
}

type splitter struct {
	connectors.UnimplementedSourceSplitter
	ids   []string
	hooks connectors.SourceSplitterHooks
}

func (s *splitter) IsSourceSplitter() {}
func (s *splitter) Start(*snapshotpb.SourceCheckpoint) error {
	as := map[string][]*workerpb.SourceSplit{}
	for i, id := range s.ids {
		as[id] = []*workerpb.SourceSplit{{SplitId: fmt.Sprintf("split%d", i)}}
	}
	s.hooks.AssignSplits(as)
	return nil
}
func (s *splitter) Close() error                          { return nil }
func (s *splitter) NotifySplitsFinished(string, []string) {}
func (s *splitter) Checkpoint() []byte                    { return nil }

// ---- the check

type worker struct {
	opID, srID string
	up         bool // the process exists and heartbeats
	known      bool // the job has it registered (as far as the harness can tell)
	lastBeat   time.Time
}

func exec(p prog, c *hx.Case) error {
	w := &world{failNext: map[string]bool{}}
	w.cond = sync.NewCond(&w.mu)
	defer func() { // never leave a Deploy call blocked
		w.mu.Lock()
		w.holdID, w.blockedID = false, false
		w.holdDeploy = false
		w.cond.Broadcast()
		w.mu.Unlock()
	}()
	clock := hx.NewClock()
	loc := coord.NewLoc("/job")
	errc := make(chan error, 64)
	// In a third of the cases the job process is started from a savepoint (made
	// here by a real Store): every later assembly start of that process must still
	// deploy from the newest completed checkpoint, not go back to the savepoint.
	savepointURI := ""
	var firstID uint64
	if p.FromSavepoint {
		ev := make(chan string, 4)
		s0 := snapshots.NewStore(&snapshots.NewStoreParams{FileStore: loc, SavepointsPath: "savepoints", CheckpointsPath: "checkpoints", CheckpointEvents: ev, ErrChan: errc})
		s0.RegisterSourceSplitter(&splitter{})
		id, _, serr := s0.CreateSavepoint([]string{"old-op"}, []string{"old-sr"})
		if serr != nil {
			return hx.Errf("fixture savepoint: %v", serr)
		}
		loc.Put("work/old-op/checkpoints", []byte(fmt.Sprintf(`{"checkpoints":[{"id":%d,"wals":[],"levels":[]}]}`, id)))
		if err := s0.AddOperatorSnapshot(&snapshotpb.OperatorCheckpoint{CheckpointId: id, OperatorId: "old-op", DkvFileUri: "/job/work/old-op/checkpoints",
			KeyGroupRange: &snapshotpb.KeyGroupRange{Start: 0, End: 8}}); err != nil {
			return hx.Errf("fixture savepoint: %v", err)
		}
		if err := s0.AddSourceSnapshot(&jobpb.SourceRunnerCheckpointCompleteRequest{CheckpointId: id, SourceRunnerId: "old-sr", SplitStates: [][]byte{[]byte("s")}}); err != nil {
			return hx.Errf("fixture savepoint: %v", err)
		}
		select {
		case <-ev:
		case e := <-errc:
			return hx.Errf("fixture savepoint: %v", e)
		case <-time.After(10 * time.Second):
			return &hx.Inconclusive{Why: "fixture savepoint not published"}
		}
		uri, uerr := s0.SavepointURIForID(id)
		if uerr != nil || uri == "" {
			return hx.Errf("fixture savepoint: no URI: %v", uerr)
		}
		savepointURI, firstID = uri, id
		// the working storage of that earlier job is gone; only the savepoint is left
		for _, f := range loc.Files() {
			if !strings.Contains(f, "/savepoints/") {
				loc.Remove(strings.TrimPrefix(f, "/job/"))
			}
		}
	}
	job, err := jobs.New(&jobs.NewParams{
		JobConfig: &config.Config{WorkerCount: p.Workers, KeyGroupCount: 8, WorkingStorageLocation: "/work", Sources: []connectors.SourceConfig{srcCfg{}}},
		Clock:     clock, Store: loc, ErrChan: errc, SavepointURI: savepointURI,
		OperatorFactory:     func(sender string, n *jobpb.NodeIdentity) proto.Operator { return &fakeOp{w: w, id: n.Id} },
		SourceRunnerFactory: func(n *jobpb.NodeIdentity) proto.SourceRunner { return &fakeSR{w: w, id: n.Id} },
	})
	if err != nil {
		return hx.Errf("jobs.New: %v", err)
	}
	const deadline = 5 * time.Second
	ws := make([]*worker, 6)
	for i := range ws {
		ws[i] = &worker{opID: fmt.Sprintf("op%d", i), srID: fmt.Sprintf("sr%d", i)}
	}
	ping := func() { // returns once every task queued before it has finished
		job.HandleDeregisterOperator(&jobpb.NodeIdentity{Id: "nobody"})
		job.HandleDeregisterOperator(&jobpb.NodeIdentity{Id: "nobody"})
	}
	settle := func() {
		last, stable := -1, 0
		for i := 0; i < 400; i++ {
			ping()
			n := len(w.snapshot())
			if n == last {
				stable++
				if stable >= 3 {
					return
				}
			} else {
				stable = 0
			}
			last = n
			time.Sleep(150 * time.Microsecond)
		}
	}
	armed := false
	var victim *worker
	victimKill := false
	var async sync.WaitGroup
	jobCall := func(f func()) {
		// (jobs.Job runs start() in a goroutine of its own: its task queue keeps
		// taking calls while a deployment is blocked, so the calls can be made in order)
		f()
	}
	windowLeft := map[string]bool{} // members that left while the round they belong to was being deployed
	lastLive := map[string]int{}    // node id -> last step at whose end the node was registered and live
	windows := 0
	stragglersArmed, stragglers := false, 0
	spRaces := 0
	raceCkpts := map[uint64]bool{} // checkpoints created by savepoint requests that were overtaken by a member's loss
	var stragglerCheck func(step int) error
	var stragglerID uint64
	var stragglerOps, stragglerSRs []string
	var pendingCkpt uint64
	var acked map[string]bool
	var curOps, curSRs []string // members of the last complete deploy round
	// the key-group range an operator of the current assembly reports with its acknowledgements
	ownRange := func(id string) *snapshotpb.KeyGroupRange {
		for i, o := range curOps {
			if o == id {
				r := partitioning.NewKeySpace(8, len(curOps)).KeyGroupRanges()[i]
				return &snapshotpb.KeyGroupRange{Start: int32(r.Start), End: int32(r.End)}
			}
		}
		return &snapshotpb.KeyGroupRange{Start: 0, End: 8}
	}
	var snapshotCount func() (n int, newest uint64)
	heartbeat := func() {
		for _, x := range ws {
			if x.up {
				x := x
				jobCall(func() {
					job.HandleRegisterOperator(&jobpb.NodeIdentity{Id: x.opID, Host: x.opID})
					job.HandleRegisterSourceRunner(&jobpb.NodeIdentity{Id: x.srID, Host: x.srID})
				})
				x.lastBeat = clock.Now()
				x.known = true
			}
		}
	}
	// window: if a deployment is blocked now, the victim leaves, then the
	// deployment is let go; in any case every call made so far has returned after it
	window := func() {
		if !armed {
			return
		}
		w.mu.Lock()
		for i := 0; i < 30 && w.blocked == 0; i++ {
			w.mu.Unlock()
			time.Sleep(100 * time.Microsecond)
			w.mu.Lock()
		}
		hit := w.blocked > 0
		w.mu.Unlock()
		if hit && pendingCkpt != 0 && stragglersArmed {
			// The job has given up the previous assembly and is deploying its
			// successor. Acknowledgements of the checkpoint that was in progress on
			// the previous assembly still arrive from its members (requests that were
			// on their way): that checkpoint can never be part of the job's history
			// any more, whoever acknowledges it.
			before, _ := snapshotCount()
			for _, id := range append(append([]string{}, curOps...), curSRs...) {
				if acked[id] {
					continue
				}
				acked[id] = true
				if strings.HasPrefix(id, "op") {
					job.HandleOperatorCheckpointComplete(context.Background(), &snapshotpb.OperatorCheckpoint{CheckpointId: pendingCkpt, OperatorId: id,
						DkvFileUri: "/work/" + id + "/checkpoints", KeyGroupRange: ownRange(id)})
				} else {
					job.HandleSourceRunnerCheckpointComplete(context.Background(), &jobpb.SourceRunnerCheckpointCompleteRequest{CheckpointId: pendingCkpt, SourceRunnerId: id, SplitStates: [][]byte{[]byte(id)}})
				}
			}
			time.Sleep(400 * time.Microsecond)
			stragglers++
			stragglerCheck = func(step int) error {
				if n, _ := snapshotCount(); n > before {
					return hx.Errf("step %d: checkpoint %d, which was in progress on the assembly %v/%v when the job gave that assembly up, was published after its last acknowledgements arrived while the next assembly was being deployed", step, stragglerID, stragglerOps, stragglerSRs)
				}
				return nil
			}
			stragglerID, stragglerOps, stragglerSRs = pendingCkpt, curOps, curSRs
		}
		stragglersArmed = false
		if hit && victim != nil && (victim.up || victim.known) {
			x := victim
			windowLeft[x.opID], windowLeft[x.srID] = true, true
			x.up, x.known = false, false
			if victimKill {
				// it stops heartbeating; the others keep re-registering while time passes
				for i := 0; i < 3; i++ {
					clock.Advance(2 * time.Second)
					heartbeat()
					time.Sleep(100 * time.Microsecond)
				}
			} else {
				jobCall(func() {
					job.HandleDeregisterOperator(&jobpb.NodeIdentity{Id: x.opID})
					job.HandleDeregisterSourceRunner(&jobpb.NodeIdentity{Id: x.srID})
				})
				time.Sleep(200 * time.Microsecond) // the calls are waiting at the job's task queue
			}
			windows++
		}
		if hit {
			w.mu.Lock()
			w.holdDeploy = false
			w.blocked = 0
			w.cond.Broadcast()
			w.mu.Unlock()
			async.Wait()
			armed = false
		} else {
			// nothing was deployed in this step: nothing is stuck, and the window closes
			w.mu.Lock()
			w.holdDeploy = false
			w.cond.Broadcast()
			w.mu.Unlock()
			async.Wait()
			armed = false
		}
	}
	live := func(x *worker) bool { return x.up && x.known }
	// what the harness believes about the job
	curHealthy := false
	seen := 0
	lastPublished := firstID // (the savepoint the process was started from, if any)
	kills, killsDuringCkpt, standby, recoveries, ckptsAfterRecovery, deployFailures := 0, 0, 0, 0, 0, 0
	snapshotCount = func() (n int, newest uint64) {
		for _, j := range loc.Journal() {
			if j.Kind == "write" && strings.HasSuffix(j.Path, ".snapshot") {
				n++
			}
		}
		return n, 0
	}
	member := func(list []string, id string) bool {
		for _, x := range list {
			if x == id {
				return true
			}
		}
		return false
	}
	partialRounds := map[string][]call{}
	// examine the calls made since the last look
	examine := func(step int) error {
		calls := w.snapshot()
		newCalls := calls[seen:]
		seen = len(calls)
		// (the Deploy calls of one round come from goroutines of their own: a round
		// may be only partly recorded at this look; the rest is carried over)
		rounds := partialRounds
		var order []string
		for key := range rounds {
			order = append(order, key)
		}
		sort.Strings(order)
		for _, cl := range newCalls {
			switch cl.Kind {
			case "deploy-op":
				if _, ok := rounds[cl.Round]; !ok {
					order = append(order, cl.Round)
				}
				rounds[cl.Round] = append(rounds[cl.Round], cl)
			case "startckpt":
				if raceCkpts[cl.ID] {
					break // (sent to the assembly that ran when the request was accepted)
				}
				if !member(curSRs, cl.Node) {
					return hx.Errf("step %d: StartCheckpoint(%d) was sent to %s, which is not a source runner of the current assembly %v", step, cl.ID, cl.Node, curSRs)
				}
				if !curHealthy {
					return hx.Errf("step %d: StartCheckpoint(%d) was sent to %s although the assembly %v/%v has lost a member", step, cl.ID, cl.Node, curOps, curSRs)
				}
			}
		}
		for _, key := range order {
			r := rounds[key]
			ops, srs := r[0].Ops, r[0].SRs
			if len(ops) != p.Workers || len(srs) != p.Workers {
				return hx.Errf("step %d: a deployment addresses %d operators and %d source runners, the job is configured for %d", step, len(ops), len(srs), p.Workers)
			}
			for _, id := range append(append([]string{}, ops...), srs...) {
				ok := false
				for _, x := range ws {
					if (x.opID == id || x.srID == id) && live(x) && !x.lastBeat.Before(clock.Now().Add(-deadline)) {
						ok = true
					}
				}
				if windowLeft[id] {
					ok = true // it was registered and live when the round was formed
				}
				if at, was := lastLive[id]; was && at >= step-1 {
					// The round may have been formed a step ago and observed only now
					// (Job.start runs on a goroutine of its own): a node that was live
					// then was a legitimate member.
					ok = true
				}
				if !ok {
					return hx.Errf("step %d: the job deployed to %s, which is not a registered, live node", step, id)
				}
			}
			// every operator is handed the parts of the checkpoint that overlap its
			// own key-group range (its position among the assembly's operators), and
			// together they cover that range
			for _, cl := range r {
				idx := -1
				for i, id := range cl.Ops {
					if id == cl.Node {
						idx = i
					}
				}
				if idx < 0 || len(cl.Ranges) == 0 || cl.Groups <= 0 {
					continue
				}
				own := partitioning.NewKeySpace(cl.Groups, len(cl.Ops)).KeyGroupRanges()[idx]
				covered := 0
				for _, rg := range cl.Ranges {
					lo, hi := max(rg[0], own.Start), min(rg[1], own.End)
					if lo >= hi {
						return hx.Errf("step %d: operator %s owns key groups [%d,%d) but was handed the checkpoint part that covers [%d,%d)", step, cl.Node, own.Start, own.End, rg[0], rg[1])
					}
					covered += hi - lo
				}
				if covered < own.End-own.Start {
					return hx.Errf("step %d: operator %s owns key groups [%d,%d) but the checkpoint parts it was handed (%v) cover only %d of them", step, cl.Node, own.Start, own.End, cl.Ranges, covered)
				}
			}
			// recovery starts from the latest completed checkpoint
			for _, cl := range r {
				for _, id := range cl.Ckpts {
					if id != lastPublished {
						return hx.Errf("step %d: operator %s was deployed from checkpoint %d, the latest completed checkpoint is %d", step, cl.Node, id, lastPublished)
					}
				}
				if lastPublished > 0 && len(cl.Ckpts) == 0 {
					return hx.Errf("step %d: operator %s was deployed without a checkpoint although checkpoint %d is complete", step, cl.Node, lastPublished)
				}
			}
			if len(r) >= p.Workers && len(r)%p.Workers == 0 { // the same assembly may be deployed more than once (retry after a failed Deploy)
				if curOps != nil {
					recoveries++
				}
				curOps, curSRs = ops, srs
				curHealthy = true
				pendingCkpt, acked = 0, nil
				delete(partialRounds, key)
			}
		}
		return nil
	}
	refreshHealth := func() {
		if curOps == nil {
			return
		}
		for _, id := range append(append([]string{}, curOps...), curSRs...) {
			for _, x := range ws {
				if (x.opID == id || x.srID == id) && !live(x) {
					curHealthy = false
				}
			}
		}
	}
	enough := func() bool {
		n := 0
		for _, x := range ws {
			if live(x) {
				n++
			}
		}
		return n >= p.Workers
	}
	for step, o := range p.Ops {
		x := ws[o.W%len(ws)]
		switch o.Kind {
		case "startw":
			x.up = true
		case "stopw": // graceful: deregisters
			if x.up || x.known {
				x.up, x.known = false, false
				job.HandleDeregisterOperator(&jobpb.NodeIdentity{Id: x.opID})
				job.HandleDeregisterSourceRunner(&jobpb.NodeIdentity{Id: x.srID})
			}
		case "killw": // stops heartbeating; the job notices after the deadline
			if x.up {
				x.up = false
				kills++
				if pendingCkpt != 0 && (member(curOps, x.opID) || member(curSRs, x.srID)) {
					killsDuringCkpt++
				}
				// time passes in heartbeat-sized steps: everybody else keeps re-registering
				for i := 0; i < 3; i++ {
					clock.Advance(2 * time.Second)
					heartbeat()
					settle()
				}
				x.known = false
			}
		case "deploywin":
			// a worker starts (which may complete an assembly); the deployment this
			// step's registrations lead to, if any, is slow, and x leaves while it runs
			tw := ws[(o.W+1+o.N)%len(ws)]
			if live(tw) && member(curOps, tw.opID) && curHealthy {
				// ... or a member of the running assembly leaves: with a standby
				// registered the job forms a new assembly at once
				tw.up, tw.known = false, false
				job.HandleDeregisterOperator(&jobpb.NodeIdentity{Id: tw.opID})
				job.HandleDeregisterSourceRunner(&jobpb.NodeIdentity{Id: tw.srID})
			} else {
				tw.up = true
			}
			armed, victim, victimKill = true, x, o.N%2 == 1
			stragglersArmed = o.N >= 2
			w.mu.Lock()
			w.holdDeploy, w.blocked = true, 0
			w.mu.Unlock()
		case "sprace":
			if !curHealthy || pendingCkpt != 0 {
				break
			}
			// the member that leaves: x if it belongs to the assembly, else the first member
			var gone *worker
			for _, y := range ws {
				if live(y) && member(curOps, y.opID) && (gone == nil || y == x) {
					gone = y
				}
			}
			if gone == nil {
				break
			}
			w.mu.Lock()
			w.holdID, w.blockedID = true, false
			w.mu.Unlock()
			type spRes struct {
				id  uint64
				err error
			}
			res := make(chan spRes, 1)
			viaTimer := o.N%2 == 1
			before := len(w.snapshot())
			go func() {
				if viaTimer {
					// (the same for a periodic checkpoint whose timer has fired)
					func() {
						defer func() { recover() }()
						clock.TickEvery("checkpointing")
					}()
					res <- spRes{0, errors.New("timer")}
					return
				}
				id, err := job.HandleCreateSavepoint(context.Background())
				res <- spRes{id, err}
			}()
			w.mu.Lock()
			for i := 0; i < 50 && !w.blockedID; i++ {
				w.mu.Unlock()
				time.Sleep(100 * time.Microsecond)
				w.mu.Lock()
			}
			caught := w.blockedID
			w.holdID = false
			w.mu.Unlock()
			if caught {
				// the request has seen the job running and is collecting the member ids;
				// now the member leaves (and with a standby registered the job forms the
				// next assembly at once)
				gone.up, gone.known = false, false
				left := make(chan struct{})
				go func() {
					job.HandleDeregisterOperator(&jobpb.NodeIdentity{Id: gone.opID})
					job.HandleDeregisterSourceRunner(&jobpb.NodeIdentity{Id: gone.srID})
					job.HandleDeregisterOperator(&jobpb.NodeIdentity{Id: "nobody"}) // (returns once the two before it have been processed)
					job.HandleDeregisterOperator(&jobpb.NodeIdentity{Id: "nobody"})
					close(left)
				}()
				// If the request collects the ids on a goroutine of its own, the job
				// processes the departure now; if it does so as one of the job's serial
				// tasks, the departure waits behind it and nothing overtakes anything.
				select {
				case <-left:
					time.Sleep(300 * time.Microsecond) // the next assembly's start, if any, gets going
				case <-time.After(3 * time.Millisecond):
				}
				w.mu.Lock()
				w.blockedID = false
				w.cond.Broadcast()
				w.mu.Unlock()
				<-left
				spRaces++
			}
			select {
			case r := <-res:
				if r.err == nil {
					// its StartCheckpoint calls go to the assembly the request saw
					raceCkpts[r.id] = true
				}
				if viaTimer {
					for _, cl := range w.snapshot()[before:] {
						if cl.Kind == "startckpt" {
							raceCkpts[cl.ID] = true
						}
					}
				}
			case <-time.After(10 * time.Second):
				return hx.Errf("step %d: a savepoint request did not return within 10s", step)
			}
			settle()
		case "faildeploy":
			w.mu.Lock()
			w.failNext[x.opID] = true
			w.mu.Unlock()
			deployFailures++
		case "tick":
			if curHealthy {
				before := len(w.snapshot())
				func() {
					defer func() { recover() }() // no ticker registered yet
					clock.TickEvery("checkpointing")
				}()
				settle()
				calls := w.snapshot()[before:]
				var ids []uint64
				got := map[string]bool{}
				for _, cl := range calls {
					if cl.Kind == "startckpt" {
						ids = append(ids, cl.ID)
						got[cl.Node] = true
					}
				}
				if pendingCkpt == 0 {
					if len(ids) == 0 {
						return hx.Errf("step %d: the assembly %v/%v is complete and live and no checkpoint is pending, but the checkpoint timer started no checkpoint", step, curOps, curSRs)
					}
					for _, sr := range curSRs {
						if !got[sr] {
							return hx.Errf("step %d: checkpoint %d was not started on source runner %s of the assembly", step, ids[0], sr)
						}
					}
					if ids[0] <= lastPublished {
						return hx.Errf("step %d: checkpoint id %d does not exceed the published %d", step, ids[0], lastPublished)
					}
					pendingCkpt, acked = ids[0], map[string]bool{}
				} else if len(ids) > 0 {
					return hx.Errf("step %d: checkpoint %d was started while checkpoint %d is still in progress", step, ids[0], pendingCkpt)
				}
			}
		case "ack", "partial":
			if pendingCkpt != 0 && curHealthy {
				n := 2 * p.Workers
				if o.Kind == "partial" {
					n = o.N
				}
				members := append(append([]string{}, curOps...), curSRs...)
				if o.W%2 == 1 {
					slices.Reverse(members) // (acknowledgements arrive in no particular order)
				}
				before, _ := snapshotCount() // (before the acknowledgement that completes the checkpoint is delivered)
				for _, id := range members {
					if n == 0 {
						break
					}
					if acked[id] {
						continue
					}
					acked[id] = true
					n--
					if strings.HasPrefix(id, "op") {
						job.HandleOperatorCheckpointComplete(context.Background(), &snapshotpb.OperatorCheckpoint{CheckpointId: pendingCkpt, OperatorId: id,
							DkvFileUri: "/work/" + id + "/checkpoints", KeyGroupRange: ownRange(id)})
					} else {
						job.HandleSourceRunnerCheckpointComplete(context.Background(), &jobpb.SourceRunnerCheckpointCompleteRequest{CheckpointId: pendingCkpt, SourceRunnerId: id, SplitStates: [][]byte{[]byte(id)}})
					}
				}
				if len(acked) == len(members) {
					ok := false
					for i := 0; i < 40000 && !ok; i++ {
						if n, _ := snapshotCount(); n > before {
							ok = true
						} else {
							time.Sleep(50 * time.Microsecond)
						}
					}
					if !ok {
						// did the job replace the assembly meanwhile (then the checkpoint was rightly abandoned)?
						was := pendingCkpt
						if err := examine(step); err != nil {
							return err
						}
						if pendingCkpt == was {
							return hx.Errf("step %d: every member acknowledged checkpoint %d but no snapshot was published", step, pendingCkpt)
						}
						break
					}
					lastPublished = pendingCkpt
					pendingCkpt, acked = 0, nil
					if recoveries > 0 {
						ckptsAfterRecovery++
					}
					settle()
				}
			}
		case "wait":
			clock.Advance(time.Second)
		}
		// every live worker re-registers (the 3 s poller); this is also what makes
		// the job look at its registry
		heartbeat()
		window()
		settle()
		if stragglerCheck != nil {
			time.Sleep(300 * time.Microsecond)
			if err := stragglerCheck(step); err != nil {
				return err
			}
			stragglerCheck = nil
		}
		refreshHealth()
		if err := examine(step); err != nil {
			return err
		}
		for id := range windowLeft {
			delete(windowLeft, id)
		}
		for _, y := range ws {
			if live(y) {
				lastLive[y.opID], lastLive[y.srID] = step, step
			}
		}
		refreshHealth()
		// bounded progress: with enough live nodes and no healthy assembly a
		// deployment must have happened by now
		w.mu.Lock()
		failuresPending := len(w.failNext)
		w.mu.Unlock()
		if !curHealthy && enough() && failuresPending == 0 {
			// (Job.start runs on a goroutine of its own, which on a busy machine may
			// get going only after the task queue has long been idle: the deployment
			// is waited for, not assumed to be there within a few hundred microseconds)
			for wait := 0; wait < 60 && !curHealthy; wait++ {
				heartbeat()
				settle()
				if err := examine(step); err != nil {
					return err
				}
				refreshHealth()
				if !curHealthy {
					time.Sleep(5 * time.Millisecond)
				}
			}
			if !curHealthy {
				var ups []string
				for _, y := range ws {
					if live(y) {
						ups = append(ups, y.opID)
					}
				}
				return hx.Errf("step %d: %d live workers are registered (%v) for a job of %d, the previous assembly %v is gone, but no new deployment happened", step, len(ups), ups, p.Workers, curOps)
			}
		}
		n := 0
		for _, y := range ws {
			if live(y) {
				n++
			}
		}
		if n > p.Workers {
			standby++
		}
		select {
		case err := <-errc:
			return hx.Errf("step %d: job error: %v", step, err)
		default:
		}
	}
	sort.Strings(curOps)
	c.LabelIf(kills > 0, "heartbeat-loss")
	c.LabelIf(killsDuringCkpt > 0, "loss-during-checkpoint")
	c.LabelIf(standby > 0, "standby-present")
	c.LabelIf(p.FromSavepoint, "job-process-started-from-a-savepoint")
	c.LabelIf(windows > 0, "member-left-while-its-round-was-being-deployed")
	c.LabelIf(spRaces > 0, "savepoint-request-overtaken-by-the-loss-of-a-member")
	c.LabelIf(stragglers > 0, "late-acknowledgements-of-the-replaced-assembly-while-the-next-is-deployed")
	c.LabelIf(ckptsAfterRecovery > 0, "checkpoint-after-recovery")
	if recoveries > 0 && ckptsAfterRecovery > 0 {
		c.NonTrivial()
	}
	return nil
}

func TestPropJob(t *testing.T) {
	hx.Run(t, hx.Spec{Prop: "C15", Persist: true, Rule: "the real jobs.Job (WorkerCount 1..3, in a third of the cases started from a savepoint made by a real Store, FrozenClock, journaling StorageLocation, harness source splitter) with recording fake operators and source runners: 3..40 steps of starting workers, graceful stops (deregistration), kills (heartbeats stop, clock passes the deadline), checkpoint-timer ticks, full or partial acknowledgements, injected Deploy failures, deployment windows (the Deploy calls of the next round block; meanwhile a drawn member deregisters or stops heartbeating, and in half of them the outstanding acknowledgements of the checkpoint that was pending on the replaced assembly arrive, which must not publish it; then the round is let go); after every step all live workers re-register and the recorded calls are examined: every deployment addresses exactly WorkerCount operators and runners that are registered and live, hands over the latest completed checkpoint (to each operator the parts that overlap its own key-group range), StartCheckpoint only goes to the current healthy assembly, a tick on a healthy idle assembly starts a checkpoint, full acknowledgement publishes a snapshot, and with enough live workers a lost assembly is replaced (bounded progress); non-trivial = >=1 recovery followed by a completed checkpoint"}, gen, exec)
}
