package lsm

import (
	"bytes"
	"encoding/json"
	"fmt"
	"os"
	"regexp"
	"runtime"
	"slices"
	"sort"
	"strconv"
	"strings"
	"sync"
	"time"

	"reduction.dev/reduction/dkv"
	"reduction.dev/reduction/dkv/kv"
	"reduction.dev/reduction/dkv/recovery"
	"reduction.dev/reduction/dkv/sst"
	"reduction.dev/reduction/dkv/storage"
	"reduction.dev/reduction/util/verifhook"
	"verifharness/hx"
)

// Config holds the (tiny) database settings of a case.
type Config struct {
	MemTable   int // bytes
	WAL        int
	TargetFile int
	L0Trigger  int
	AmpPercent int   // Compactor.MaxSizeAmplificationPercent
	SmallLevel int64 // Compactor.SmallestLevelSize
	RankSeed   uint32
	// ParkAtCreate: a held flush or compaction parks where it creates its table
	// file, not only where it saves it
	ParkAtCreate bool
}

// Op is one step of a Program.
type Op struct {
	Kind string
	Key  int    // index into the key universe
	Val  []byte // put
	Pfx  []byte // scan prefix
	A, B int    // generic arguments (ids, picks)
	On   bool
}

// Program is a JSON-serialisable history over one database.
type Program struct {
	Cfg  Config
	Keys [][]byte // key universe
	Ops  []Op
	// CrashAll: restore every retained checkpoint at every later storage
	// operation (fault enumeration); otherwise at CrashSample drawn points.
	CrashAll    bool
	CrashSample []int
}

// Mode selects which oracles beyond the always-on read checks are active.
type Mode struct {
	CheckFiles  bool // C09: referenced files exist after every step
	Checkpoints bool // C08: non-triviality is about checkpoints and restores
}

type ckpt struct {
	id       uint64
	snap     map[string][]byte
	handle   *recovery.CheckpointHandle
	wait     func() (recovery.CheckpointHandle, error)
	doneAt   int // journal length when the handle was returned
	retained bool
	started  bool
}

type sched struct {
	mu                          sync.Mutex
	cond                        *sync.Cond
	db                          *dkv.DB
	rotated, swapped, idle, cps int
	parkReads                   bool
	parked                      int
	resume                      chan struct{}
}

func (s *sched) point(name string, args ...any) {
	if len(args) == 0 || args[0] != any(s.db) {
		return
	}
	s.mu.Lock()
	switch name {
	case "dkv.rotate":
		s.rotated++
	case "dkv.flush.swapped":
		s.swapped++
	case "dkv.compact.idle":
		s.idle++
	case "dkv.compact.swapped":
		s.cps++
	case "dkv.read.between_snapshots":
		if s.parkReads {
			s.parkReads = false
			s.parked++
			ch := s.resume
			s.cond.Broadcast()
			s.mu.Unlock()
			<-ch
			return
		}
	}
	s.cond.Broadcast()
	s.mu.Unlock()
}

// waitFor waits (bounded) until cond() holds; reports whether it did.
func (s *sched) waitFor(d time.Duration, cond func() bool) bool {
	deadline := time.Now().Add(d)
	stop := time.AfterFunc(d, func() { s.mu.Lock(); s.cond.Broadcast(); s.mu.Unlock() })
	defer stop.Stop()
	s.mu.Lock()
	defer s.mu.Unlock()
	for !cond() {
		if time.Now().After(deadline) {
			return false
		}
		s.cond.Wait()
	}
	return true
}

var diagMem = regexp.MustCompile(`MemTables \(num: (\d+)\)`)
var diagLevel = regexp.MustCompile(`level (\d+), tables (\d+)`)

type shape struct {
	sealed int
	levels []int
}

func shapeOf(db *dkv.DB) shape {
	d := db.Diagnostics()
	sh := shape{}
	if m := diagMem.FindStringSubmatch(d); m != nil {
		n, _ := strconv.Atoi(m[1])
		sh.sealed = n - 1
	}
	for _, m := range diagLevel.FindAllStringSubmatch(d, -1) {
		n, _ := strconv.Atoi(m[2])
		sh.levels = append(sh.levels, n)
	}
	return sh
}

func (sh shape) deeper() int {
	n := 0
	for i, c := range sh.levels {
		if i >= 1 {
			n += c
		}
	}
	return n
}

type interp struct {
	p     Program
	c     *hx.Case
	mode  Mode
	fs    *GateFS
	db    *dkv.DB
	s     *sched
	model map[string][]byte
	cks   []*ckpt
	// statistics for the non-triviality rules
	readSealed, readL0x2, readDeep, delFlushed, swapReads int
	ckptInFlight, ckptSecond, restores, crashPoints       int
	idleChain                                             int // restored incarnations checkpointed without a write
	overlapRetains                                        int // retention updates that ran beside a parked checkpoint save
	flushedKeys                                           map[string]bool
	gcs, reopens, chainDepth                              int
	keep                                                  []*dkv.DB
	walDropsChecked, lateRetains                          int
}

func opts(p Program, fs storage.FileSystem) dkv.DBOptions {
	return dkv.DBOptions{
		FileSystem:                  fs,
		MemTableSize:                uint64(max(p.Cfg.MemTable, 1)),
		MaxWALSize:                  uint64(max(p.Cfg.WAL, 1)),
		TargetFileSize:              uint64(max(p.Cfg.TargetFile, 1)),
		L0TableNumCompactionTrigger: max(p.Cfg.L0Trigger, 1),
	}
}

func installTuner(p Program) {
	rank := p.Cfg.RankSeed | 1
	var mu sync.Mutex
	verifhook.SetTuner(func(name string, v any) {
		switch name {
		case "dkv.compactor":
			c := v.(*sst.Compactor)
			if p.Cfg.AmpPercent > 0 {
				c.MaxSizeAmplificationPercent = p.Cfg.AmpPercent
			}
			if p.Cfg.SmallLevel > 0 {
				c.SmallestLevelSize = p.Cfg.SmallLevel
			}
		case "ziptree.rank":
			mu.Lock()
			rank = rank*1664525 + 1013904223
			*(v.(*uint32)) = rank >> 8
			mu.Unlock()
		}
	})
}

const waitLong = 20 * time.Second

// Exec runs the Program against a real database and the model.
func Exec(p Program, c *hx.Case, mode Mode) (err error) {
	if len(p.Keys) == 0 {
		return nil
	}
	in := &interp{p: p, c: c, mode: mode, fs: NewGateFS(), model: map[string][]byte{}, flushedKeys: map[string]bool{}}
	in.fs.ParkAtCreate = p.Cfg.ParkAtCreate
	c.LabelIf(p.Cfg.ParkAtCreate, "held-writes-park-at-file-creation")
	in.s = &sched{resume: make(chan struct{})}
	in.s.cond = sync.NewCond(&in.s.mu)
	installTuner(p)
	verifhook.SetPoint(in.s.point)
	defer verifhook.SetTuner(nil)
	defer verifhook.SetPoint(nil)
	db := dkv.New(opts(p, in.fs))
	in.s.db = db
	in.db = db
	if err := db.Start(nil); err != nil {
		return hx.Errf("Start: %v", err)
	}
	defer func() {
		// never leave tasks behind: the flush/compaction queues are process globals
		in.fs.ReleaseAll()
		for _, ck := range in.cks {
			if ck.wait != nil && ck.handle == nil {
				ck.wait()
			}
		}
		if werr := in.db.WaitOnTasks(); werr != nil && err == nil {
			err = hx.Errf("background task failed: %v", werr)
		}
	}()
	for step, op := range p.Ops {
		if err := in.step(step, op); err != nil {
			return err
		}
		if mode.CheckFiles {
			if err := in.checkFiles(step, op); err != nil {
				return err
			}
		}
	}
	// final: let everything finish, then compare everything
	in.fs.ReleaseAll()
	if err := in.settle(len(p.Ops)); err != nil {
		return err
	}
	if err := in.checkAll(len(p.Ops), "final"); err != nil {
		return err
	}
	if err := in.awaitCheckpoints(len(p.Ops)); err != nil {
		return err
	}
	if err := in.restoreAll(len(p.Ops)); err != nil {
		return err
	}
	runtime.KeepAlive(in.keep)
	c.Label(fmt.Sprintf("ckpts=%d", min(len(in.cks), 4)))
	in.nontrivial()
	c.LabelIf(in.readSealed > 0, "read-with-flush-in-flight")
	c.LabelIf(in.readL0x2 > 0, "read-with-L0>=2")
	c.LabelIf(in.readDeep > 0, "read-with-deeper-level")
	c.LabelIf(in.delFlushed > 0, "delete-or-overwrite-of-flushed-key")
	c.LabelIf(in.swapReads > 0, "read-across-swap")
	c.LabelIf(in.ckptInFlight > 0, "checkpoint-with-task-in-flight")
	c.LabelIf(in.restores > 0, "restore")
	c.LabelIf(in.idleChain > 0, "restored-database-checkpointed-while-idle")
	c.LabelIf(in.overlapRetains > 0, "retention-update-beside-a-parked-checkpoint-save")
	c.LabelIf(in.gcs > 0, "forced-gc")
	c.LabelIf(in.walDropsChecked > 0, "wal-removal-after-retention-checked")
	c.LabelIf(in.lateRetains > 0, "late-retention-update")
	return nil
}

func (in *interp) key(i int) []byte {
	return in.p.Keys[((i%len(in.p.Keys))+len(in.p.Keys))%len(in.p.Keys)]
}

func (in *interp) quiescent() bool {
	s := in.s
	fl := in.fs.Holding(ClFlush) || s.swapped == s.rotated
	co := in.fs.Holding(ClCompact) || in.fs.Holding(ClFlush) || s.idle == s.swapped
	return fl && co
}

// settle waits until every pipeline that is not held has finished its work,
// and a held one has reached its gate.
func (in *interp) settle(step int) error {
	ok := in.s.waitFor(waitLong, in.quiescent)
	if !ok {
		// a failed background task never reports idle: surface its error
		errc := make(chan error, 1)
		go func() { errc <- in.db.WaitOnTasks() }()
		select {
		case err := <-errc:
			if err != nil {
				return hx.Errf("step %d: background task failed: %v", step, err)
			}
		case <-time.After(2 * time.Second):
		}
		if os.Getenv("VERIF_DEBUG_STALL") != "" {
			buf := make([]byte, 1<<16)
			buf = buf[:runtime.Stack(buf, true)]
			return hx.Errf("DEBUG stall at step %d: rotated=%d swapped=%d idle=%d holds flush=%v compact=%v\n%s", step, in.s.rotated, in.s.swapped, in.s.idle, in.fs.Holding(ClFlush), in.fs.Holding(ClCompact), buf)
		}
		return &hx.Inconclusive{Why: "background tasks did not settle"}
	}
	// give a held pipeline a moment to reach its gate (only affects labels)
	if in.fs.Holding(ClFlush) {
		deadline := time.Now().Add(50 * time.Millisecond)
		for time.Now().Before(deadline) && in.outstanding() > 0 && in.fs.Blocked(ClFlush) == 0 {
			time.Sleep(20 * time.Microsecond)
		}
	}
	return nil
}

func (in *interp) outstanding() int {
	in.s.mu.Lock()
	defer in.s.mu.Unlock()
	return in.s.rotated - in.s.swapped
}

func entryValue(e kv.Entry, err error) ([]byte, bool, error) {
	if err == kv.ErrNotFound {
		return nil, false, nil
	}
	if err != nil {
		return nil, false, err
	}
	if e.IsDelete() {
		return nil, false, nil
	}
	v := e.Value()
	if v == nil {
		v = []byte{}
	}
	return v, true, nil
}

func (in *interp) checkGet(step int, what string, db *dkv.DB, model map[string][]byte, k []byte) error {
	got, ok, err := entryValue(db.Get(k))
	if err != nil {
		return hx.Errf("step %d %s: Get(%q): %v", step, what, k, err)
	}
	want, had := model[string(k)]
	if ok != had || (ok && !bytes.Equal(got, want)) {
		return hx.Errf("step %d %s: Get(%q) = %q (present=%v), the latest write is %q (present=%v)", step, what, k, got, ok, want, had)
	}
	return nil
}

func (in *interp) checkScan(step int, what string, db *dkv.DB, model map[string][]byte, prefix []byte) error {
	var want []string
	for _, k := range hx.SortedKeys(model) {
		if bytes.HasPrefix([]byte(k), prefix) {
			want = append(want, k)
		}
	}
	var scanErr error
	i := 0
	for e := range db.ScanPrefix(prefix, &scanErr) {
		if e.IsDelete() {
			return hx.Errf("step %d %s: ScanPrefix(%q) yielded a tombstone for %q", step, what, prefix, e.Key())
		}
		if i >= len(want) {
			return hx.Errf("step %d %s: ScanPrefix(%q) yielded %q which is not a live key with that prefix (live: %q)", step, what, prefix, e.Key(), want)
		}
		if string(e.Key()) != want[i] {
			return hx.Errf("step %d %s: ScanPrefix(%q) item %d is %q, want %q (live: %q)", step, what, prefix, i, e.Key(), want[i], want)
		}
		if !bytes.Equal(e.Value(), model[want[i]]) {
			return hx.Errf("step %d %s: ScanPrefix(%q) key %q has value %q, the latest write is %q", step, what, prefix, e.Key(), e.Value(), model[want[i]])
		}
		i++
	}
	if scanErr != nil {
		return hx.Errf("step %d %s: ScanPrefix(%q): %v", step, what, prefix, scanErr)
	}
	if i != len(want) {
		return hx.Errf("step %d %s: ScanPrefix(%q) yielded %d keys, want %d: %q", step, what, prefix, i, len(want), want)
	}
	return nil
}

func (in *interp) checkAll(step int, what string) error {
	for _, k := range in.p.Keys {
		if err := in.checkGet(step, what, in.db, in.model, k); err != nil {
			return err
		}
	}
	return in.checkScan(step, what, in.db, in.model, nil)
}

func (in *interp) noteRead(k []byte) {
	sh := shapeOf(in.db)
	if sh.sealed > 0 {
		in.readSealed++
	}
	if len(sh.levels) > 0 && sh.levels[0] >= 2 {
		in.readL0x2++
	}
	if sh.deeper() > 0 {
		in.readDeep++
	}
}

func (in *interp) afterWrite(step int, k []byte) error {
	// The flush and compaction queues are process globals with capacity 5 and a
	// flush task blocks when it cannot enqueue its compaction: never let more
	// than a few tasks pile up behind held gates.
	if (in.fs.Holding(ClFlush) || in.fs.Holding(ClCompact)) && (in.outstanding() >= 3 || in.compactBacklog() >= 2) {
		if err := in.drain(step); err != nil {
			return err
		}
	}
	if err := in.settle(step); err != nil {
		return err
	}
	in.noteRead(k)
	return in.checkGet(step, "after write", in.db, in.model, k)
}

// drain lets everything in flight finish and then restores the holds.
func (in *interp) drain(step int) error {
	hf, hc := in.fs.Holding(ClFlush), in.fs.Holding(ClCompact)
	in.fs.SetHold(ClFlush, false)
	in.fs.SetHold(ClCompact, false)
	err := in.settle(step)
	in.fs.SetHold(ClFlush, hf)
	in.fs.SetHold(ClCompact, hc)
	return err
}

func (in *interp) compactBacklog() int {
	in.s.mu.Lock()
	defer in.s.mu.Unlock()
	return in.s.swapped - in.s.idle
}

func (in *interp) markFlushed() {
	if in.outstanding() == 0 {
		for k := range in.model {
			in.flushedKeys[k] = true
		}
	}
}

func (in *interp) step(step int, op Op) error {
	switch op.Kind {
	case "put":
		k := in.key(op.Key)
		if in.flushedKeys[string(k)] {
			in.delFlushed++
		}
		v := op.Val
		if v == nil {
			v = []byte{}
		}
		before := in.outstandingRot()
		in.db.Put(k, v)
		in.model[string(k)] = v
		if in.outstandingRot() > before {
			in.noteRotation()
		}
		return in.afterWrite(step, k)
	case "del":
		k := in.key(op.Key)
		if in.flushedKeys[string(k)] {
			in.delFlushed++
		}
		before := in.outstandingRot()
		in.db.Delete(k)
		delete(in.model, string(k))
		if in.outstandingRot() > before {
			in.noteRotation()
		}
		return in.afterWrite(step, k)
	case "get":
		k := in.key(op.Key)
		in.noteRead(k)
		return in.checkGet(step, "get", in.db, in.model, k)
	case "scan":
		in.noteRead(nil)
		return in.checkScan(step, "scan", in.db, in.model, op.Pfx)
	case "checkall":
		in.noteRead(nil)
		return in.checkAll(step, "checkall")
	case "hold":
		cls := []string{ClFlush, ClCompact, ClWAL, ClCkpt}[((op.A%4)+4)%4]
		in.fs.SetHold(cls, op.On)
		if !op.On {
			if in.compactBacklog()+in.outstanding() >= 3 {
				return in.drain(step)
			}
			return in.settle(step)
		}
		return nil
	case "settle":
		for _, cl := range []string{ClFlush, ClCompact} {
			in.fs.SetHold(cl, false)
		}
		return in.settle(step)
	case "swapread":
		return in.swapRead(step, op)
	case "checkpoint":
		return in.checkpoint(step, op)
	case "await":
		return in.awaitCheckpoints(step)
	case "retain":
		return in.retain(step, op)
	case "restore":
		return in.restoreOne(step, op)
	case "gc":
		in.forceGC()
		return nil
	case "reopen":
		return in.reopen(step, op)
	}
	return nil
}

func (in *interp) outstandingRot() int {
	in.s.mu.Lock()
	defer in.s.mu.Unlock()
	return in.s.rotated
}

// noteRotation: everything written so far is in a sealed memtable or below.
func (in *interp) noteRotation() {
	for k := range in.model {
		in.flushedKeys[k] = true
	}
}

// swapRead starts a read, parks it between its two snapshots (memtables vs
// SST levels), lets a pending flush swap complete, then resumes the read.
func (in *interp) swapRead(step int, op Op) error {
	if !(in.fs.Holding(ClFlush) && in.outstanding() > 0) {
		return in.step(step, Op{Kind: "get", Key: op.Key})
	}
	k := in.key(op.Key)
	in.s.mu.Lock()
	in.s.parkReads = true
	in.s.resume = make(chan struct{})
	resume := in.s.resume
	parkedBefore := in.s.parked
	in.s.mu.Unlock()
	res := make(chan error, 1)
	finished := false
	// the model cannot change while the read is parked: writes come from this goroutine only
	go func() {
		var err error
		if op.On {
			err = in.checkScan(step, "scan spanning a flush swap", in.db, in.model, op.Pfx)
		} else {
			err = in.checkGet(step, "get spanning a flush swap", in.db, in.model, k)
		}
		in.s.mu.Lock()
		finished = true
		in.s.cond.Broadcast()
		in.s.mu.Unlock()
		res <- err
	}()
	if !in.s.waitFor(waitLong, func() bool { return in.s.parked > parkedBefore || finished }) {
		close(resume)
		<-res
		return &hx.Inconclusive{Why: "read did not reach the park point"}
	}
	in.s.mu.Lock()
	didPark := in.s.parked > parkedBefore
	in.s.parkReads = false
	in.s.mu.Unlock()
	if !didPark { // answered from the memtables alone: nothing to interleave
		return <-res
	}
	// complete the pending flush swap(s) while the read is parked
	hc := in.fs.Holding(ClCompact)
	if hc && in.compactBacklog()+in.outstanding() >= 3 {
		in.fs.SetHold(ClCompact, false)
	}
	in.fs.SetHold(ClFlush, false)
	serr := in.settle(step)
	in.fs.SetHold(ClFlush, true)
	in.fs.SetHold(ClCompact, hc)
	close(resume)
	err := <-res
	if serr != nil {
		return serr
	}
	in.swapReads++
	return err
}

func (in *interp) checkpoint(step int, op Op) error {
	id := uint64(len(in.cks) + 1)
	ck := &ckpt{id: id, snap: map[string][]byte{}, retained: true, started: true}
	for k, v := range in.model {
		ck.snap[k] = v
	}
	sh := shapeOf(in.db)
	inFlight := sh.sealed > 0 || in.fs.Blocked(ClCompact) > 0 || in.fs.Blocked(ClFlush) > 0
	pendingPrev := false
	for _, prev := range in.cks {
		if prev.handle == nil {
			pendingPrev = true
		}
	}
	if inFlight {
		in.ckptInFlight++
	}
	if len(in.cks) > 0 && (inFlight || pendingPrev) {
		in.ckptSecond++
	}
	ck.wait = in.db.Checkpoint(id)
	in.cks = append(in.cks, ck)
	if !in.fs.Holding(ClWAL) && !in.fs.Holding(ClCkpt) {
		return in.awaitCheckpoints(step)
	}
	return nil
}

// awaitCheckpoints releases the checkpoint-save gates and collects handles.
func (in *interp) awaitCheckpoints(step int) error {
	in.fs.SetHold(ClWAL, false)
	in.fs.SetHold(ClCkpt, false)
	for _, ck := range in.cks {
		if ck.handle != nil || ck.wait == nil {
			continue
		}
		type res struct {
			h   recovery.CheckpointHandle
			err error
		}
		ch := make(chan res, 1)
		go func() { h, err := ck.wait(); ch <- res{h, err} }()
		select {
		case r := <-ch:
			if r.err != nil {
				return hx.Errf("step %d: checkpoint %d failed: %v", step, ck.id, r.err)
			}
			ck.handle = &r.h
			ck.doneAt = in.fs.JournalLen()
		case <-time.After(waitLong):
			return &hx.Inconclusive{Why: "checkpoint save did not finish"}
		}
	}
	return nil
}

func (in *interp) retain(step int, op Op) error {
	// A retention update may arrive while a newer checkpoint is still being
	// saved (its checkpoints file is parked at the storage): the update names
	// only checkpoints that are complete, the one in flight survives it.
	overlap := false
	if op.On && (in.mode.Checkpoints || in.mode.CheckFiles) && !in.fs.Holding(ClWAL) && in.fs.Blocked(ClCkpt) == 0 {
		// make it so: with two complete checkpoints retained and none in flight,
		// another checkpoint is taken whose checkpoints file parks at the storage
		done, flying := 0, 0
		for _, ck := range in.cks {
			if ck.retained && ck.handle != nil {
				done++
			} else if ck.handle == nil {
				flying++
			}
		}
		if done >= 2 && flying == 0 {
			in.fs.SetHold(ClCkpt, true)
			if err := in.checkpoint(step, op); err != nil {
				return err
			}
			deadline := time.Now().Add(waitLong)
			for in.fs.Blocked(ClCkpt) == 0 && time.Now().Before(deadline) {
				time.Sleep(50 * time.Microsecond)
			}
		}
	}
	if in.fs.Holding(ClCkpt) && in.fs.Blocked(ClCkpt) > 0 {
		done := 0
		for _, ck := range in.cks {
			if ck.retained && ck.handle != nil {
				done++
			}
		}
		overlap = done >= 2
	}
	if !overlap {
		if err := in.awaitCheckpoints(step); err != nil {
			return err
		}
	}
	var live []*ckpt
	for _, ck := range in.cks {
		if ck.retained && (!overlap || ck.handle != nil) {
			live = append(live, ck)
		}
	}
	if len(live) < 2 {
		return nil
	}
	// keep a non-empty suffix-or-subset chosen by the program; the newest is always kept
	var ids []uint64
	// A late update (B%4 = 1..3) was sent before the newest 1..3 checkpoints
	// existed (the job delivers the updates one after another, a slow operator
	// delays all later ones): it names only older checkpoints, and every newer
	// one must survive it.
	lateBy := min(op.B%4, len(live)-1)
	if op.B < 0 {
		lateBy = 0
	}
	newestNamed := len(live) - 1 - lateBy
	for i, ck := range live {
		switch {
		case i > newestNamed:
			// not named, still retained
		case i == newestNamed, (op.A>>uint(i%16))&1 == 1:
			ids = append(ids, ck.id)
		default:
			ck.retained = false
		}
	}
	if lateBy > 0 {
		in.lateRetains++
	}
	if lateBy > 1 {
		in.c.Label("retention update late by >=2 checkpoints")
	}
	// WAL files of the checkpoints about to be dropped (from the current document)
	dropWALs := map[uint64][]string{}
	keepWALs := map[string]bool{}
	if in.mode.CheckFiles {
		for _, ck := range live {
			if ck.handle == nil {
				continue
			}
			data, _ := readAll(in.fs.inner.Open(ck.handle.URI))
			var doc ckptDoc
			json.Unmarshal(data, &doc)
			for _, d := range doc.Checkpoints {
				for _, w := range d.WALs {
					if d.ID == ck.id && ck.retained {
						keepWALs[w.URI] = true
					} else if d.ID == ck.id {
						dropWALs[d.ID] = append(dropWALs[d.ID], w.URI)
					}
				}
			}
		}
	}
	if overlap {
		// the update runs beside the parked save; then the save is let go and both finish
		res := make(chan error, 1)
		go func() { res <- in.db.UpdateRetainedCheckpoints(ids) }()
		time.Sleep(400 * time.Microsecond)
		if err := in.awaitCheckpoints(step); err != nil {
			return err
		}
		select {
		case err := <-res:
			if err != nil {
				return hx.Errf("step %d: UpdateRetainedCheckpoints(%v) beside a checkpoint save: %v", step, ids, err)
			}
		case <-time.After(waitLong):
			return &hx.Inconclusive{Why: "retention update beside a checkpoint save did not return"}
		}
		in.overlapRetains++
	} else if err := in.db.UpdateRetainedCheckpoints(ids); err != nil {
		return hx.Errf("step %d: UpdateRetainedCheckpoints(%v): %v", step, ids, err)
	}
	for id, uris := range dropWALs {
		for _, u := range uris {
			if !keepWALs[u] && in.fs.Exists(u) {
				return hx.Errf("step %d: retention update %v was saved but WAL %s, referenced only by dropped checkpoint %d, still exists", step, ids, u, id)
			}
			in.walDropsChecked++
		}
	}
	return nil
}

// restoreFrom opens a fresh database from the handle on the given storage and
// compares its full contents with the snapshot taken at the Checkpoint call.
func (in *interp) restoreFrom(step int, what string, fs storage.FileSystem, ck *ckpt, small bool) (*dkv.DB, error) {
	o := dkv.DBOptions{FileSystem: fs}
	if small {
		o = opts(in.p, fs)
	}
	var db *dkv.DB
	err := func() (err error) {
		defer func() {
			if r := recover(); r != nil {
				err = hx.Errf("step %d %s: opening checkpoint %d panicked: %v", step, what, ck.id, r)
			}
		}()
		db = dkv.New(o)
		if serr := db.Start([]recovery.CheckpointHandle{*ck.handle}); serr != nil {
			return hx.Errf("step %d %s: opening checkpoint %d: %v", step, what, ck.id, serr)
		}
		return nil
	}()
	if err != nil {
		return nil, err
	}
	if werr := db.WaitOnTasks(); werr != nil {
		return nil, hx.Errf("step %d %s: restored database background task: %v", step, what, werr)
	}
	w := fmt.Sprintf("%s: database restored from checkpoint %d", what, ck.id)
	// The first reads of a restored database come from several goroutines at once
	// (handler calls, timers, a compaction): its tables were opened from their
	// descriptors and load their metadata on first use.
	first := make(chan error, 3)
	reader := func(f func() error) {
		go func() {
			defer func() {
				if r := recover(); r != nil {
					first <- hx.Errf("step %d %s (one of three concurrent first readers) panicked: %v", step, w, r)
				}
			}()
			first <- f()
		}()
	}
	reader(func() error {
		for _, k := range in.p.Keys {
			if err := in.checkGet(step, w+" (concurrent first reads)", db, ck.snap, k); err != nil {
				return err
			}
		}
		return nil
	})
	reader(func() error {
		for i := len(in.p.Keys) - 1; i >= 0; i-- {
			if err := in.checkGet(step, w+" (concurrent first reads)", db, ck.snap, in.p.Keys[i]); err != nil {
				return err
			}
		}
		return nil
	})
	reader(func() error { return in.checkScan(step, w+" (concurrent first reads)", db, ck.snap, nil) })
	var firstErr error
	for i := 0; i < 3; i++ {
		if err := <-first; err != nil && firstErr == nil {
			firstErr = err
		}
	}
	if firstErr != nil {
		return nil, firstErr
	}
	for _, k := range in.p.Keys {
		if err := in.checkGet(step, w, db, ck.snap, k); err != nil {
			return nil, err
		}
	}
	if err := in.checkScan(step, w, db, ck.snap, nil); err != nil {
		return nil, err
	}
	in.restores++
	return db, nil
}

// restoreOne: crash now (abandon the process), restore a retained checkpoint
// on the storage as it is, optionally keep writing and chain another
// checkpoint/restore.
func (in *interp) restoreOne(step int, op Op) (err error) {
	var cands []*ckpt
	for _, ck := range in.cks {
		if ck.retained && ck.handle != nil {
			cands = append(cands, ck)
		}
	}
	if len(cands) == 0 {
		return nil
	}
	ck := cands[((op.A%len(cands))+len(cands))%len(cands)]
	fs := in.fs.Fork(in.fs.JournalLen()) // the crash happens now, with whatever is in flight
	defer func() {
		if err != nil {
			for i, j := range fs.Journal() {
				in.c.Logf("  restored storage op %d %s %s", i+1, j.Kind, j.Path)
			}
		}
	}()
	// the restored database shares the process-global task queues with the
	// original: let the original's held tasks finish before using them
	for _, cl := range []string{ClFlush, ClCompact} {
		in.fs.SetHold(cl, false)
	}
	if err := in.settle(step); err != nil {
		return err
	}
	if len(op.Val) > 0 {
		// the same checkpoint as a database with a long life behind it would have
		// written it: table numbers about to outgrow the six digits of their names
		aged, aerr := ageStorage(fs, ck.handle.URI)
		if aerr != nil {
			return hx.Errf("step %d: ageing the storage: %v", step, aerr)
		}
		if aged {
			in.c.Label("restored-with-table-numbers-around-1000000")
		}
	}
	db, err := in.restoreFrom(step, "crash-restore now", fs, ck, op.On)
	if err != nil {
		return err
	}
	// chain: write to the restored database, checkpoint it, restore that
	model := map[string][]byte{}
	for k, v := range ck.snap {
		model[k] = v
	}
	// 1..3 further incarnations; each writes 6, 2 or no operations at all before
	// it is checkpointed (a restored database may be checkpointed while idle)
	depth := 1 + ((op.B%3)+3)%3
	for d := 0; d < depth; d++ {
		nw := []int{6, 0, 6, 2}[((op.B/3+d)%4+4)%4]
		if nw == 0 {
			in.idleChain++
		}
		for i := 0; i < nw; i++ {
			k := in.key(op.B + i*3 + d)
			if (op.B+i+d)%4 == 0 {
				db.Delete(k)
				delete(model, string(k))
			} else {
				v := []byte(fmt.Sprintf("r%d.%d.%d", step, d, i))
				db.Put(k, v)
				model[string(k)] = v
			}
		}
		for _, k := range in.p.Keys {
			if err := in.checkGet(step, "restored database after new writes", db, model, k); err != nil {
				return err
			}
		}
		if err := in.checkScan(step, "restored database after new writes", db, model, nil); err != nil {
			return err
		}
		h, err := db.Checkpoint(ck.id + 100 + uint64(d))()
		if err != nil {
			return hx.Errf("step %d: checkpoint of restored database: %v", step, err)
		}
		if err := db.WaitOnTasks(); err != nil {
			return hx.Errf("step %d: restored database background task: %v", step, err)
		}
		next := &ckpt{id: h.CheckpointID, snap: model, handle: &h}
		// the next incarnation is a new process: it works on the storage as the
		// previous one left it, and the previous one can no longer touch it
		fs = fs.Fork(fs.JournalLen())
		db2, err := in.restoreFrom(step, fmt.Sprintf("chain depth %d", d+2), fs, next, op.On)
		if err != nil {
			return err
		}
		in.keep = append(in.keep, db) // a crashed process never runs its cleanups
		db = db2
		in.chainDepth = max(in.chainDepth, d+2)
		m2 := map[string][]byte{}
		for k, v := range model {
			m2[k] = v
		}
		model = m2
	}
	in.keep = append(in.keep, db)
	return nil
}

// restoreAll: for every retained checkpoint, restore it at crash points after
// its handle was returned.
func (in *interp) restoreAll(step int) error {
	total := in.fs.JournalLen()
	for _, ck := range in.cks {
		if !ck.retained || ck.handle == nil {
			continue
		}
		var points []int
		if in.p.CrashAll {
			for i := ck.doneAt; i <= total; i++ {
				points = append(points, i)
			}
		} else {
			points = append(points, total)
			for _, s := range in.p.CrashSample {
				if total > ck.doneAt {
					points = append(points, ck.doneAt+((s%(total-ck.doneAt+1))+(total-ck.doneAt+1))%(total-ck.doneAt+1))
				}
			}
		}
		sort.Ints(points)
		points = slices.Compact(points)
		for _, pt := range points {
			// a crash point inside a retention update that drops this checkpoint is
			// not a point at which it is retained; ck.retained covers the end state
			db, err := in.restoreFrom(step, fmt.Sprintf("crash after storage operation %d of %d", pt, total), in.fs.At(pt), ck, false)
			if err != nil {
				in.c.Logf("checkpoint %d: handle returned after storage operation %d; journal:", ck.id, ck.doneAt)
				for i, j := range in.fs.Journal() {
					extra := ""
					if strings.HasSuffix(j.Path, "checkpoints") && j.Kind == "save" {
						var doc ckptDoc
						json.Unmarshal(j.Data, &doc)
						for _, d := range doc.Checkpoints {
							extra += fmt.Sprintf(" id=%d", d.ID)
						}
					}
					in.c.Logf("  %d %s %s (%d bytes)%s", i+1, j.Kind, j.Path, len(j.Data), extra)
				}
				return err
			}
			runtime.KeepAlive(db)
			in.crashPoints++
		}
	}
	return nil
}

// ------------------------------------------------------------------ C09

type ckptDoc struct {
	Checkpoints []struct {
		ID   uint64 `json:"id"`
		WALs []struct {
			URI string `json:"uri"`
		} `json:"wals"`
		Levels [][]struct {
			URI string
		} `json:"levels"`
	} `json:"checkpoints"`
}

// checkFiles: every file referenced by a retained, completed checkpoint exists.
func (in *interp) checkFiles(step int, op Op) error {
	for _, ck := range in.cks {
		if !ck.retained || ck.handle == nil {
			continue
		}
		data, _ := readAll(in.fs.inner.Open(ck.handle.URI))
		var doc ckptDoc
		if err := json.Unmarshal(data, &doc); err != nil {
			return hx.Errf("step %d after %s: checkpoints file %s unreadable: %v", step, op.Kind, ck.handle.URI, err)
		}
		found := false
		for _, d := range doc.Checkpoints {
			if d.ID != ck.id {
				continue
			}
			found = true
			for _, w := range d.WALs {
				if !in.fs.Exists(w.URI) {
					return hx.Errf("step %d after %s: WAL %s of retained checkpoint %d no longer exists", step, op.Kind, w.URI, ck.id)
				}
			}
			for _, lvl := range d.Levels {
				for _, t := range lvl {
					if !in.fs.Exists(t.URI) {
						return hx.Errf("step %d after %s: table %s of retained checkpoint %d no longer exists", step, op.Kind, t.URI, ck.id)
					}
				}
			}
		}
		if !found {
			return hx.Errf("step %d after %s: retained checkpoint %d is missing from %s", step, op.Kind, ck.id, ck.handle.URI)
		}
	}
	return nil
}

// forceGC makes runtime.AddCleanup deletions of unreachable tables happen now.
func (in *interp) forceGC() {
	type sentinel struct{ _ [16]byte }
	done := make(chan struct{})
	func() {
		s := &sentinel{}
		runtime.AddCleanup(s, func(ch chan struct{}) { close(ch) }, done)
	}()
	for i := 0; i < 4; i++ {
		runtime.GC()
		select {
		case <-done:
			runtime.GC()
			time.Sleep(200 * time.Microsecond)
			in.gcs++
			return
		case <-time.After(2 * time.Millisecond):
		}
	}
	in.gcs++
}

// reopen abandons the database object and opens a new one from the newest
// retained checkpoint on the SAME storage in the same process (the shape of an
// operator redeploy); the old object is left to the garbage collector.
func (in *interp) reopen(step int, op Op) error {
	for _, cl := range []string{ClFlush, ClCompact} {
		in.fs.SetHold(cl, false)
	}
	if err := in.settle(step); err != nil {
		return err
	}
	if err := in.awaitCheckpoints(step); err != nil {
		return err
	}
	var ck *ckpt
	for _, c := range in.cks {
		if c.retained && c.handle != nil {
			ck = c
		}
	}
	if ck == nil {
		return nil
	}
	old := in.db
	if err := old.WaitOnTasks(); err != nil {
		return hx.Errf("step %d: background task failed: %v", step, err)
	}
	if in.c.Known("C09-reopen-previous-object-cleanup") {
		// (same exclusion) run the cleanups of the old object's already obsolete
		// tables now, before the new incarnation can reuse their file names
		in.forceGC()
		in.forceGC()
	}
	db := dkv.New(opts(in.p, in.fs))
	in.s.mu.Lock()
	in.s.db = db
	in.s.rotated, in.s.swapped, in.s.idle = 0, 0, 0
	in.s.mu.Unlock()
	if err := db.Start([]recovery.CheckpointHandle{*ck.handle}); err != nil {
		return hx.Errf("step %d: reopening from checkpoint %d: %v", step, ck.id, err)
	}
	in.db = db
	in.model = map[string][]byte{}
	for k, v := range ck.snap {
		in.model[k] = v
	}
	// checkpoints other than the one reopened from are no longer known to the new database
	for _, c := range in.cks {
		if c != ck {
			c.retained = false
		}
	}
	in.reopens++
	if err := in.settle(step); err != nil {
		return err
	}
	if err := in.checkAll(step, "after reopen"); err != nil {
		return err
	}
	if in.c.Known("C09-reopen-previous-object-cleanup") {
		// Open known finding: the abandoned object's table cleanups delete files
		// that the checkpoint it was reopened from still references. Excluded by
		// construction (the object is kept alive) so that the search continues.
		in.keep = append(in.keep, old)
		in.c.Label("avoided:C09-reopen-previous-object-cleanup")
	}
	old = nil
	in.forceGC()
	return in.checkAll(step, "after reopen and collection of the previous database object")
}

// nontrivial applies the rule of the active mode.
func (in *interp) nontrivial() {
	reads := in.readSealed > 0 || in.readL0x2 > 0 || in.readDeep > 0 || in.swapReads > 0
	switch {
	case in.mode.CheckFiles:
		if in.gcs > 0 && in.restores+in.reopens > 0 && len(in.cks) > 0 {
			in.c.NonTrivial()
		}
	case in.mode.Checkpoints:
		if in.restores > 0 && (in.ckptInFlight > 0 || in.ckptSecond > 0 || in.chainDepth >= 2) {
			in.c.NonTrivial()
		}
	default:
		if reads && in.delFlushed > 0 {
			in.c.NonTrivial()
		}
	}
}
