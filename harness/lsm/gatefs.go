// Package lsm holds the shared harness for the DKV-level checks (C07, C08,
// C09, C18): a gating + journaling file system, a scheduler built on the verif
// hook points, and an interpreter that runs a Program against a real dkv.DB and
// a map model in lock step.
package lsm

import (
	"bytes"
	"runtime"
	"sort"
	"strings"
	"sync"

	"reduction.dev/reduction/dkv/storage"
)

// Class of a Save, used for gating.
const (
	ClFlush   = "flush"   // *.sst written by a memtable flush task
	ClCompact = "compact" // *.sst written by a compaction task
	ClWAL     = "wal"     // *.wal saved by a checkpoint
	ClCkpt    = "ckpt"    // the checkpoints file
	ClOther   = "other"
)

// JournalOp is one durable storage operation, in the order it took effect.
type JournalOp struct {
	Kind string // save | delete | copy
	Path string
	Data []byte // for save / copy
}

// GateFS wraps a MemoryFilesystem: every Save/Delete/Copy is journaled (so the
// storage as of any operation can be materialised = crash point), and Saves
// can be held per class to keep background tasks in flight.
type GateFS struct {
	inner   *storage.MemoryFilesystem
	mu      sync.Mutex
	cond    *sync.Cond
	hold    map[string]bool
	blocked map[string]int
	journal []JournalOp
	closed  bool
	// ParkAtCreate: held table writes park in New as well as in Save
	ParkAtCreate bool
}

func NewGateFS() *GateFS {
	g := &GateFS{inner: storage.NewMemoryFilesystem(), hold: map[string]bool{}, blocked: map[string]int{}}
	g.cond = sync.NewCond(&g.mu)
	return g
}

func classify(path string) string {
	switch {
	case strings.HasSuffix(path, ".sst"):
		buf := make([]byte, 8192)
		buf = buf[:runtime.Stack(buf, false)]
		// (by what is on the writer's stack, not by how the closures of
		// rotateMemtable happen to be numbered: a table written under the compactor
		// is a compaction's, any other written by a task of rotateMemtable a flush's)
		if bytes.Contains(buf, []byte("sst.(*Compactor)")) {
			return ClCompact
		}
		if bytes.Contains(buf, []byte("rotateMemtable")) {
			return ClFlush
		}
		return ClOther
	case strings.HasSuffix(path, ".wal"):
		return ClWAL
	case strings.HasSuffix(path, "checkpoints"):
		return ClCkpt
	}
	return ClOther
}

// SetHold holds or releases one class of Saves.
func (g *GateFS) SetHold(class string, on bool) {
	g.mu.Lock()
	g.hold[class] = on
	g.cond.Broadcast()
	g.mu.Unlock()
}

func (g *GateFS) Holding(class string) bool {
	g.mu.Lock()
	defer g.mu.Unlock()
	return g.hold[class]
}

// ReleaseAll opens every gate (end of case).
func (g *GateFS) ReleaseAll() {
	g.mu.Lock()
	g.hold = map[string]bool{}
	g.closed = true
	g.cond.Broadcast()
	g.mu.Unlock()
}

func (g *GateFS) Blocked(class string) int {
	g.mu.Lock()
	defer g.mu.Unlock()
	return g.blocked[class]
}

func (g *GateFS) gate(class string) {
	g.mu.Lock()
	if g.hold[class] && !g.closed {
		g.blocked[class]++
		g.cond.Broadcast()
		for g.hold[class] && !g.closed {
			g.cond.Wait()
		}
		g.blocked[class]--
	}
	g.mu.Unlock()
}

func (g *GateFS) record(op JournalOp) {
	g.mu.Lock()
	g.journal = append(g.journal, op)
	g.cond.Broadcast()
	g.mu.Unlock()
}

// JournalLen is the number of durable operations so far.
func (g *GateFS) JournalLen() int {
	g.mu.Lock()
	defer g.mu.Unlock()
	return len(g.journal)
}

func (g *GateFS) Journal() []JournalOp {
	g.mu.Lock()
	defer g.mu.Unlock()
	return append([]JournalOp(nil), g.journal...)
}

func (g *GateFS) filesAt(n int) map[string][]byte {
	j := g.Journal()
	files := map[string][]byte{}
	for _, op := range j[:n] {
		switch op.Kind {
		case "save", "copy":
			files[op.Path] = op.Data
		case "delete":
			delete(files, op.Path)
		}
	}
	return files
}

// At materialises the storage as it was after the first n journaled operations.
func (g *GateFS) At(n int) *storage.MemoryFilesystem {
	fs := storage.NewMemoryFilesystem()
	for p, d := range g.filesAt(n) {
		f := fs.New(p)
		f.Write(d)
		f.Save()
	}
	return fs
}

// Fork returns a new journaling file system holding the files as of the first
// n operations (a new "process" working on the storage the crash left behind).
func (g *GateFS) Fork(n int) *GateFS {
	f := NewGateFS()
	files := g.filesAt(n)
	paths := make([]string, 0, len(files))
	for p := range files {
		paths = append(paths, p)
	}
	sort.Strings(paths)
	for _, p := range paths {
		file := f.New(p)
		file.Write(files[p])
		file.Save()
	}
	return f
}

// Exists reports whether a URI currently exists.
func (g *GateFS) Exists(uri string) bool { return g.inner.Exists(uri) }
func (g *GateFS) List() []string         { return g.inner.List() }

func (g *GateFS) New(path string) storage.File {
	if g.ParkAtCreate && strings.HasSuffix(path, ".sst") {
		// a held table write parks before its file is created (a slow or blocking
		// create), not only before it is saved
		g.gate(classify(path))
	}
	return &gateFile{File: g.inner.New(path), g: g}
}
func (g *GateFS) Open(path string) storage.File {
	return &gateFile{File: g.inner.Open(path), g: g, opened: true}
}
func (g *GateFS) Copy(src, dst string) error {
	if err := g.inner.Copy(src, dst); err != nil {
		return err
	}
	// read back the copied bytes for the journal
	f := g.inner.Open(dst)
	data, _ := readAll(f)
	g.record(JournalOp{Kind: "copy", Path: uriPath(f.URI()), Data: data})
	return nil
}

func readAll(f storage.File) ([]byte, error) {
	var out []byte
	buf := make([]byte, 4096)
	var off int64
	for {
		n, err := f.ReadAt(buf, off)
		out = append(out, buf[:n]...)
		off += int64(n)
		if err != nil || n == 0 {
			return out, nil
		}
	}
}

func uriPath(uri string) string { return strings.TrimPrefix(uri, "memory://") }

type gateFile struct {
	storage.File
	g      *GateFS
	buf    bytes.Buffer
	opened bool
}

func (f *gateFile) Write(p []byte) (int, error) {
	f.buf.Write(p)
	return f.File.Write(p)
}

func (f *gateFile) Save() error {
	f.g.gate(classify(f.File.Name()))
	if err := f.File.Save(); err != nil {
		return err
	}
	f.g.record(JournalOp{Kind: "save", Path: uriPath(f.File.URI()), Data: f.buf.Bytes()})
	return nil
}

func (f *gateFile) Delete() error {
	err := f.File.Delete()
	f.g.record(JournalOp{Kind: "delete", Path: uriPath(f.File.URI())})
	return err
}

func (f *gateFile) CreateDeleteFunc() func() error {
	inner := f.File.CreateDeleteFunc()
	g, path := f.g, uriPath(f.File.URI())
	return func() error {
		err := inner()
		g.record(JournalOp{Kind: "delete", Path: path})
		return err
	}
}

var _ storage.FileSystem = (*GateFS)(nil)
