package lsm

import (
	"encoding/json"
	"fmt"
	"path"
	"sort"
	"strconv"
	"strings"
)

// ageStorage rewrites the checkpoints file at uri (and copies the table files
// it names) as the same database would look after a long life: every table
// number is shifted so that the smallest one referenced becomes 999999 and the
// others continue from 1000000, i.e. the numbering is about to outgrow the six
// digits of the file-name format. Contents, key ranges and sequence numbers
// are untouched. It reports whether anything was renamed (at least two tables).
func ageStorage(fs *GateFS, uri string) (bool, error) {
	data, err := readAll(fs.inner.Open(uri))
	if err != nil || len(data) == 0 {
		return false, err
	}
	var doc map[string]any
	if err := json.Unmarshal(data, &doc); err != nil {
		return false, err
	}
	ids := map[int64]bool{}
	walk := func(visit func(t map[string]any)) {
		cks, _ := doc["checkpoints"].([]any)
		for _, c := range cks {
			cm, _ := c.(map[string]any)
			levels, _ := cm["levels"].([]any)
			for _, l := range levels {
				ts, _ := l.([]any)
				for _, t := range ts {
					if tm, ok := t.(map[string]any); ok {
						visit(tm)
					}
				}
			}
		}
	}
	idOf := func(u string) (int64, bool) {
		base := path.Base(uriPath(u))
		if !strings.HasSuffix(base, ".sst") {
			return 0, false
		}
		n, err := strconv.ParseInt(strings.TrimSuffix(base, ".sst"), 10, 64)
		return n, err == nil
	}
	walk(func(t map[string]any) {
		if u, ok := t["URI"].(string); ok {
			if id, ok := idOf(u); ok {
				ids[id] = true
			}
		}
	})
	if len(ids) < 2 {
		return false, nil
	}
	sorted := make([]int64, 0, len(ids))
	for id := range ids {
		sorted = append(sorted, id)
	}
	sort.Slice(sorted, func(i, j int) bool { return sorted[i] < sorted[j] })
	shift := 999999 - sorted[0]
	if shift <= 0 {
		return false, nil
	}
	renamed := map[string]string{}
	walk(func(t map[string]any) {
		u, _ := t["URI"].(string)
		id, ok := idOf(u)
		if !ok {
			return
		}
		nu := strings.TrimSuffix(u, path.Base(uriPath(u))) + fmt.Sprintf("%06d.sst", id+shift)
		renamed[u] = nu
		t["URI"] = nu
	})
	for from, to := range renamed {
		b, err := readAll(fs.inner.Open(from))
		if err != nil {
			return false, err
		}
		f := fs.New(to)
		f.Write(b)
		f.Save()
	}
	out, err := json.Marshal(doc)
	if err != nil {
		return false, err
	}
	f := fs.New(uri)
	f.Write(out)
	f.Save()
	return true, nil
}
