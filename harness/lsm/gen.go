package lsm

import (
	"pgregory.net/rapid"
	"verifharness/hx"
)

// GenConfig draws tiny database settings so that rotation, flush and
// compaction happen within a few operations.
func GenConfig(rt *rapid.T) Config {
	return Config{
		MemTable:     rapid.SampledFrom([]int{48, 64, 96, 160, 256, 512}).Draw(rt, "memtable"),
		WAL:          rapid.SampledFrom([]int{96, 128, 512, 4096}).Draw(rt, "wal"),
		TargetFile:   rapid.SampledFrom([]int{48, 64, 128, 512, 2048}).Draw(rt, "targetfile"),
		L0Trigger:    rapid.IntRange(1, 4).Draw(rt, "l0trigger"),
		AmpPercent:   rapid.SampledFrom([]int{1, 25, 50, 100, 200, 1000}).Draw(rt, "amp"),
		SmallLevel:   rapid.SampledFrom([]int64{32, 64, 256, 1024, 1 << 28}).Draw(rt, "smalllevel"),
		RankSeed:     rapid.Uint32().Draw(rt, "rankseed"),
		ParkAtCreate: rapid.IntRange(0, 2).Draw(rt, "parkatcreate") == 0,
	}
}

// GenKeys draws the key universe: 6..16 keys with prefix structure.
func GenKeys(rt *rapid.T) [][]byte {
	n := rapid.IntRange(6, 16).Draw(rt, "nkeys")
	return hx.AdversarialKeys[:n]
}

// GenOps draws n operations; weights maps an op kind to its relative frequency.
func GenOps(rt *rapid.T, n int, kinds []string) []Op {
	ops := make([]Op, 0, n)
	for i := 0; i < n; i++ {
		k := rapid.SampledFrom(kinds).Draw(rt, "kind")
		op := Op{Kind: k}
		switch k {
		case "put":
			op.Key = rapid.IntRange(0, 15).Draw(rt, "key")
			op.Val = rapid.SliceOfN(rapid.Byte(), 0, 12).Draw(rt, "val")
		case "del", "get":
			op.Key = rapid.IntRange(0, 15).Draw(rt, "key")
		case "scan":
			op.Pfx = hx.AdversarialKeys[rapid.IntRange(0, len(hx.AdversarialKeys)-1).Draw(rt, "pfx")]
		case "hold":
			op.A = rapid.IntRange(0, 3).Draw(rt, "class")
			op.On = rapid.Bool().Draw(rt, "on")
		case "swapread":
			op.Key = rapid.IntRange(0, 15).Draw(rt, "key")
			op.On = rapid.Bool().Draw(rt, "scan")
			op.Pfx = hx.AdversarialKeys[rapid.IntRange(0, len(hx.AdversarialKeys)-1).Draw(rt, "pfx")]
		case "retain":
			op.A = rapid.IntRange(0, 255).Draw(rt, "mask")
			op.B = rapid.IntRange(0, 3).Draw(rt, "late")
			op.On = rapid.IntRange(0, 3).Draw(rt, "besideasave") == 0 // the update arrives while a newer checkpoint is being saved
		case "restore":
			op.A = rapid.IntRange(0, 7).Draw(rt, "which")
			op.B = rapid.IntRange(0, 31).Draw(rt, "chain")
			op.On = rapid.Bool().Draw(rt, "small")
			if rapid.IntRange(0, 3).Draw(rt, "aged") == 0 {
				op.Val = []byte{1}
			}
		}
		ops = append(ops, op)
	}
	return ops
}
