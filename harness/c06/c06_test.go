// Package c06 checks C06: rescaling redistributes checkpointed state and
// timers completely and exclusively.
package c06

import (
	"slices"
	"testing"

	"pgregory.net/rapid"
	"reduction.dev/reduction/partitioning"
	"verifharness/hx"
	"verifharness/opx"
)

var kinds = []string{"event", "event", "event", "event", "event", "event", "wm", "wm", "flush", "checkpoint", "rescale", "rescale", "probe"}

func gen(rt *rapid.T) opx.History { return opx.GenHistory(rt, kinds, 4, 2, true) }

func exec(p opx.History, c *hx.Case) error {
	st, err := opx.ExecHistory(p, c)
	if err != nil {
		return err
	}
	c.LabelIf(st.ScaleChange > 0, "M!=N")
	c.LabelIf(st.NonIdentityPerm > 0, "non-identity-ack-order")
	c.LabelIf(st.FlushSwaps > 0, "flushed-tables")
	c.LabelIf(st.Rescales >= 2, "chain")
	if st.ScaleChange > 0 && st.NonIdentityPerm > 0 && st.FlushSwaps > 0 {
		c.NonTrivial()
	}
	return nil
}

func TestPropRescale(t *testing.T) {
	hx.Run(t, hx.Spec{Prop: "C06", Persist: true, Rule: "1..4 real Operators (key-group counts 1..256, DKV tuned tiny) run a generated history of scripted state mutations, timers and watermarks, then checkpoint; the operator checkpoints are recorded in a drawn permutation and the real jobs.Assembly.Deploy (AssignRanges, KeySpace, HandleDeploy, LoadCheckpointList, WAL replay filter) restores them into 1..4 fresh operators; every key is then probed at its new owner, more mutations/timers/watermarks follow, with further rescales (chains M->N->P); on every handler invocation the supplied state must equal the shadow map, timers must fire exactly once at the key's owner; non-trivial = M != N, a non-identity record order and >=1 flushed table"}, gen, exec)
}

// ---------------------------------------------------------------- AssignRanges against a reference

type arProg struct {
	Groups, M, N int
	Perm         []int
}

func genAR(rt *rapid.T) arProg {
	g := rapid.OneOf(rapid.IntRange(1, 12), rapid.IntRange(1, 300)).Draw(rt, "groups")
	return arProg{Groups: g, M: rapid.IntRange(1, 8).Draw(rt, "m"), N: rapid.IntRange(1, 8).Draw(rt, "n"),
		Perm: rapid.SliceOfN(rapid.IntRange(0, 99), 8, 8).Draw(rt, "perm")}
}

func execAR(p arProg, c *hx.Case) error {
	from := slices.Clone(partitioning.NewKeySpace(p.Groups, p.M).KeyGroupRanges())
	// record the old ranges in the drawn order
	idx := make([]int, len(from))
	for i := range idx {
		idx[i] = i
	}
	slices.SortStableFunc(idx, func(a, b int) int { return p.Perm[a] - p.Perm[b] })
	perm := make([]partitioning.KeyGroupRange, len(from))
	for i, j := range idx {
		perm[i] = from[j]
	}
	to := partitioning.NewKeySpace(p.Groups, p.N).KeyGroupRanges()
	got := partitioning.AssignRanges(to, perm)
	if len(got) != len(to) {
		return hx.Errf("AssignRanges returned %d assignments for %d ranges", len(got), len(to))
	}
	for ti, tr := range to {
		var want []int
		for fi, fr := range perm {
			if fr.Start < tr.End && tr.Start < fr.End && fr.Size() > 0 && tr.Size() > 0 {
				want = append(want, fi)
			}
		}
		g := slices.Clone(got[ti])
		slices.Sort(g)
		// an empty range (more operators than key groups) holds no key: extra
		// assignments to it are harmless, missing ones for a non-empty range lose state
		for _, wnt := range want {
			if !slices.Contains(g, wnt) {
				return hx.Errf("AssignRanges(to=%v, from=%v): new range %v is not given old range %v (index %d) although they overlap; got %v", to, perm, tr, perm[wnt], wnt, got[ti])
			}
		}
		for _, gi := range g {
			if gi < 0 || gi >= len(perm) {
				return hx.Errf("AssignRanges returned index %d out of range", gi)
			}
			if tr.Size() > 0 && perm[gi].Size() > 0 && !(perm[gi].Start < tr.End && tr.Start < perm[gi].End) {
				return hx.Errf("AssignRanges(to=%v, from=%v): new range %v is given old range %v which does not overlap it", to, perm, tr, perm[gi])
			}
		}
		if len(slices.Compact(slices.Clone(g))) != len(g) {
			return hx.Errf("AssignRanges gave new range %v the same old range twice: %v", tr, got[ti])
		}
	}
	if p.M != p.N && !slices.IsSortedFunc(perm, func(a, b partitioning.KeyGroupRange) int { return a.Start - b.Start }) {
		c.NonTrivial()
	}
	return nil
}

func TestPropAssignRanges(t *testing.T) {
	hx.Run(t, hx.Spec{Prop: "C06", Rule: "key-group counts 1..300, old and new operator counts 1..8, the old ranges recorded in a drawn permutation: AssignRanges must give every non-empty new range exactly the old ranges that overlap it (reference: quadratic overlap scan), each once; non-trivial = M != N and a record order that is not ascending"}, genAR, execAR)
}
