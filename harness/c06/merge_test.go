package c06

import (
	"bytes"
	"encoding/binary"
	"fmt"
	"runtime"
	"slices"
	"strings"
	"sync"
	"testing"

	"pgregory.net/rapid"
	"reduction.dev/reduction/dkv"
	"reduction.dev/reduction/dkv/kv"
	"reduction.dev/reduction/dkv/recovery"
	"reduction.dev/reduction/dkv/sst"
	"reduction.dev/reduction/dkv/storage"
	"reduction.dev/reduction/partitioning"
	"reduction.dev/reduction/proto/snapshotpb"
	"reduction.dev/reduction/util/verifhook"
	"verifharness/hx"
	"verifharness/opx"
)

// ---------------------------------------------------------------- the databases under a rescale
//
// The mechanism of C06 below the operator: dkv.Open with the checkpoint handles
// of several old databases (LoadCheckpointList merges their level lists and
// WALs, Start replays the WALs filtered by ownership and resumes the sequence
// numbers), for every M, N, record order and history, with writes after the
// restore. Cheap enough for tens of thousands of cases.

type mop struct {
	Kind string // put | del | wait
	KG   int
	Name int
	Val  []byte
}

type mprog struct {
	Groups, M, N                  int
	Perm                          []int
	MemTable, TargetFile, L0, WAL int
	AmpPercent                    int
	SmallLevel                    int64
	RankSeed                      uint32
	Before, After                 []mop
	Names                         int
	SecondRestore                 bool
	// Early > 0: the old databases also took an earlier job checkpoint, after the
	// first Early operations; the retention update that follows the newer one
	// (keep only the newer) reached the old databases whose bit is set in Pruned,
	// so their checkpoints files list different checkpoints
	Early, Pruned                 int
	K                             int // a second change of the count (0 = none)
	Perm2                         []int
	After2                        []mop
}

var nameGen = []string{"", "a", "ab", "abc", "b", "\x00", "a\x00", "\xff", "zz", "k", "kk", "m"}

func genMops(rt *rapid.T, n, groups, names int, label string, retouch []mop) []mop {
	var out []mop
	for i := 0; i < n; i++ {
		o := mop{Kind: rapid.SampledFrom([]string{"put", "put", "put", "put", "del", "wait"}).Draw(rt, label+"kind"),
			KG: rapid.IntRange(0, groups-1).Draw(rt, label+"kg"), Name: rapid.IntRange(0, names-1).Draw(rt, label+"name")}
		if len(retouch) > 0 && rapid.IntRange(0, 2).Draw(rt, label+"retouch") > 0 {
			// come back to an entry written before the checkpoint, the latest ones first
			t := retouch[len(retouch)-1-rapid.IntRange(0, min(len(retouch)-1, 7)).Draw(rt, label+"which")]
			o.KG, o.Name = t.KG, t.Name
		}
		if o.Kind == "put" {
			o.Val = rapid.SliceOfN(rapid.Byte(), 0, 40).Draw(rt, label+"val")
		}
		out = append(out, o)
	}
	return out
}

func genMerge(rt *rapid.T) mprog {
	p := mprog{
		Groups:     rapid.SampledFrom([]int{1, 2, 3, 4, 6, 6, 8, 12, 16}).Draw(rt, "groups"),
		M:          rapid.IntRange(1, 4).Draw(rt, "m"),
		N:          rapid.IntRange(1, 4).Draw(rt, "n"),
		Perm:       rapid.SliceOfN(rapid.IntRange(0, 99), 4, 4).Draw(rt, "perm"),
		MemTable:   rapid.SampledFrom([]int{64, 128, 256, 700, 1 << 20}).Draw(rt, "memtable"),
		TargetFile: rapid.SampledFrom([]int{64, 256, 4096}).Draw(rt, "targetfile"),
		L0:         rapid.IntRange(1, 3).Draw(rt, "l0"),
		WAL:        rapid.SampledFrom([]int{1 << 20, 1 << 20, 300}).Draw(rt, "wal"),
		AmpPercent: rapid.SampledFrom([]int{1, 50, 200}).Draw(rt, "amp"),
		SmallLevel: rapid.SampledFrom([]int64{64, 1024, 1 << 28}).Draw(rt, "small"),
		RankSeed:   rapid.Uint32().Draw(rt, "rank"),
		Names:      rapid.IntRange(2, len(nameGen)).Draw(rt, "names"),
	}
	p.Before = genMops(rt, rapid.IntRange(1, 60).Draw(rt, "nbefore"), p.Groups, p.Names, "b", nil)
	var written []mop
	for _, o := range p.Before {
		if o.Kind != "wait" {
			written = append(written, o)
		}
	}
	p.After = genMops(rt, rapid.IntRange(0, 25).Draw(rt, "nafter"), p.Groups, p.Names, "a", written)
	if rapid.IntRange(0, 2).Draw(rt, "early") == 0 {
		p.Early = rapid.IntRange(1, len(p.Before)).Draw(rt, "earlyat")
		p.Pruned = rapid.IntRange(0, 15).Draw(rt, "pruned")
	}
	p.SecondRestore = rapid.Bool().Draw(rt, "second")
	if rapid.Bool().Draw(rt, "third") {
		p.K = rapid.IntRange(1, 4).Draw(rt, "k")
		p.Perm2 = rapid.SliceOfN(rapid.IntRange(0, 99), 4, 4).Draw(rt, "perm2")
		p.After2 = genMops(rt, rapid.IntRange(0, 12).Draw(rt, "nafter2"), p.Groups, p.Names, "c", append(written, p.After...))
	}
	return p
}

type kgOwner struct{ r partitioning.KeyGroupRange }

func (o kgOwner) OwnsKey(key []byte) bool {
	g := int(binary.BigEndian.Uint16(key[:2]))
	return g >= o.r.Start && g < o.r.End
}

// shared files are never deleted here (C09 is about that)
func (o kgOwner) ExclusivelyOwnsTable(string, []byte, []byte) (bool, error) { return false, nil }

var _ kv.DataOwnership = kgOwner{}

func mkey(o mop) []byte {
	k := make([]byte, 2, 8)
	binary.BigEndian.PutUint16(k, uint16(o.KG))
	return append(k, nameGen[o.Name]...)
}

func execMerge(p mprog, c *hx.Case) error {
	rank := p.RankSeed | 1
	var mu sync.Mutex
	verifhook.SetTuner(func(name string, v any) {
		switch name {
		case "dkv.compactor":
			cp := v.(*sst.Compactor)
			cp.MaxSizeAmplificationPercent = p.AmpPercent
			cp.SmallestLevelSize = p.SmallLevel
		case "ziptree.rank":
			mu.Lock()
			rank = rank*1664525 + 1013904223
			*(v.(*uint32)) = rank >> 8
			mu.Unlock()
		}
	})
	defer verifhook.SetTuner(nil)
	trk := hx.TrackDBs()
	defer trk.Close()
	fs := storage.NewMemoryFilesystem()
	var keep []*dkv.DB // dead processes run no cleanups
	defer func() {
		// nothing of this case may still run when its databases become garbage
		// (their cleanups delete files a late background compaction would read)
		for _, db := range keep {
			trk.Wait(db, db.WaitOnTasks)
		}
		runtime.KeepAlive(keep)
	}()
	open := func(dir string, r partitioning.KeyGroupRange, hs []recovery.CheckpointHandle) (db *dkv.DB, err error) {
		defer func() {
			if rec := recover(); rec != nil {
				err = hx.Errf("opening %s from %d checkpoints panicked: %v", dir, len(hs), rec)
			}
		}()
		db = dkv.Open(dkv.DBOptions{FileSystem: fs.WithWorkingDir(dir), MemTableSize: uint64(p.MemTable), TargetFileSize: uint64(p.TargetFile),
			MaxWALSize: uint64(p.WAL), L0TableNumCompactionTrigger: p.L0, DataOwnership: kgOwner{r}}, hs)
		keep = append(keep, db)
		return db, nil
	}
	model := map[string][]byte{}
	from := slices.Clone(partitioning.NewKeySpace(p.Groups, p.M).KeyGroupRanges())
	olds := make([]*dkv.DB, len(from))
	for i, r := range from {
		db, err := open(fmt.Sprintf("old%d", i), r, nil)
		if err != nil {
			return err
		}
		olds[i] = db
	}
	ownerOf := func(rs []partitioning.KeyGroupRange, g int) int {
		for i, r := range rs {
			if g >= r.Start && g < r.End {
				return i
			}
		}
		return -1
	}
	apply := func(dbs []*dkv.DB, rs []partitioning.KeyGroupRange, o mop) (int, error) {
		i := ownerOf(rs, o.KG)
		if i < 0 {
			return -1, nil
		}
		k := mkey(o)
		switch o.Kind {
		case "put":
			dbs[i].Put(k, o.Val)
			model[string(k)] = o.Val
		case "del":
			dbs[i].Delete(k)
			delete(model, string(k))
		case "wait":
			if err := trk.Wait(dbs[i], dbs[i].WaitOnTasks); err != nil {
				return i, hx.Errf("background task failed: %v", err)
			}
		}
		return i, nil
	}
	finalID := uint64(1)
	for n, o := range p.Before {
		if p.Early > 0 && n == p.Early {
			for i, db := range olds {
				if _, err := db.Checkpoint(1)(); err != nil {
					return hx.Errf("earlier checkpoint of old database %d: %v", i, err)
				}
				if err := trk.Wait(db, db.WaitOnTasks); err != nil {
					return hx.Errf("background task failed: %v", err)
				}
			}
			finalID = 2
		}
		if _, err := apply(olds, from, o); err != nil {
			return err
		}
	}
	// the checkpoints, recorded in the drawn order
	handles := make([]recovery.CheckpointHandle, len(olds))
	for i, db := range olds {
		h, err := db.Checkpoint(finalID)()
		if err != nil {
			return hx.Errf("checkpoint of old database %d: %v", i, err)
		}
		if err := trk.Wait(db, db.WaitOnTasks); err != nil {
			return hx.Errf("background task failed: %v", err)
		}
		handles[i] = h
	}
	unevenFiles := false
	if finalID == 2 {
		// the job announces "keep only checkpoint 2"; the announcement reaches some
		// of the old operators before they are gone
		for i, db := range olds {
			if p.Pruned>>uint(i)&1 == 1 {
				if err := db.UpdateRetainedCheckpoints([]uint64{2}); err != nil {
					return hx.Errf("retention update at old database %d: %v", i, err)
				}
			} else if p.Pruned != 0 {
				unevenFiles = true
			}
		}
		unevenFiles = unevenFiles && p.Pruned&(1<<uint(len(olds))-1) != 0
	}
	flushed := 0
	for _, f := range fs.List() {
		if strings.HasSuffix(f, ".sst") {
			flushed++
		}
	}
	idx := make([]int, len(from))
	for i := range idx {
		idx[i] = i
	}
	slices.SortStableFunc(idx, func(a, b int) int { return p.Perm[a] - p.Perm[b] })
	perm := make([]partitioning.KeyGroupRange, len(from))
	for i, j := range idx {
		perm[i] = from[j]
	}
	to := slices.Clone(partitioning.NewKeySpace(p.Groups, p.N).KeyGroupRanges())
	assign := partitioning.AssignRanges(to, perm)
	news := make([]*dkv.DB, len(to))
	for j, r := range to {
		var hs []recovery.CheckpointHandle
		for _, fi := range assign[j] {
			hs = append(hs, handles[idx[fi]])
		}
		db, err := open(fmt.Sprintf("new%d", j), r, hs)
		if err != nil {
			return err
		}
		news[j] = db
	}
	read := func(db *dkv.DB, k []byte) (get []byte, gok bool, scan []byte, sok bool, err error) {
		e, gerr := db.Get(k)
		if gerr == nil {
			if !e.IsDelete() { // Get hands out the tombstone of a deleted key
				get, gok = e.Value(), true
			}
		} else if gerr != kv.ErrNotFound {
			return nil, false, nil, false, hx.Errf("Get(%q): %v", k, gerr)
		}
		var serr error
		for e := range db.ScanPrefix(k, &serr) {
			if bytes.Equal(e.Key(), k) {
				if sok {
					return nil, false, nil, false, hx.Errf("ScanPrefix(%q) yields the key twice", k)
				}
				scan, sok = slices.Clone(e.Value()), true
			}
		}
		if serr != nil {
			return nil, false, nil, false, hx.Errf("ScanPrefix(%q): %v", k, serr)
		}
		return
	}
	scanOnly := false
	checkKey := func(dbs []*dkv.DB, rs []partitioning.KeyGroupRange, k []byte, when string) error {
		j := ownerOf(rs, int(binary.BigEndian.Uint16(k[:2])))
		if j < 0 {
			return nil
		}
		want, present := model[string(k)]
		get, gok, scan, sok, err := read(dbs[j], k)
		if err != nil {
			return err
		}
		if !scanOnly && (gok != present || (present && !bytes.Equal(get, want))) {
			return hx.Errf("%s: Get(%q) at new operator %d (%v, restored from old ranges %v recorded as %v) = %q (present=%v), the model has %q (present=%v)", when, k, j, rs[j], from, perm, get, gok, want, present)
		}
		if sok != present || (present && !bytes.Equal(scan, want)) {
			return hx.Errf("%s: ScanPrefix(%q) at new operator %d (%v, restored from old ranges %v recorded as %v) = %q (present=%v), the model has %q (present=%v)", when, k, j, rs[j], from, perm, scan, sok, want, present)
		}
		return nil
	}
	allKeys := func() [][]byte {
		var ks [][]byte
		for g := 0; g < p.Groups; g++ {
			for n := 0; n < p.Names; n++ {
				ks = append(ks, mkey(mop{KG: g, Name: n}))
			}
		}
		return ks
	}
	checkAll := func(dbs []*dkv.DB, rs []partitioning.KeyGroupRange, when string) error {
		for _, k := range allKeys() {
			if err := checkKey(dbs, rs, k, when); err != nil {
				return err
			}
		}
		return nil
	}
	if err := checkAll(news, to, "right after the restore"); err != nil {
		return err
	}
	rewrites := 0
	for step, o := range p.After {
		if o.Kind != "wait" {
			if _, was := model[string(mkey(o))]; was {
				rewrites++
			}
		}
		if _, err := apply(news, to, o); err != nil {
			return err
		}
		if o.Kind != "wait" {
			if err := checkKey(news, to, mkey(o), fmt.Sprintf("after step %d following the restore (%s)", step, o.Kind)); err != nil {
				return err
			}
		}
	}
	for _, db := range news {
		if err := trk.Wait(db, db.WaitOnTasks); err != nil {
			return hx.Errf("background task failed: %v", err)
		}
	}
	if err := checkAll(news, to, "after the writes following the restore, flushes and compactions settled"); err != nil {
		return err
	}
	if p.SecondRestore {
		// every new database is checkpointed and reopened from its own checkpoint
		again := make([]*dkv.DB, len(news))
		for j, db := range news {
			h, err := db.Checkpoint(finalID + 1)()
			if err != nil {
				return hx.Errf("checkpoint of new database %d: %v", j, err)
			}
			if err := trk.Wait(db, db.WaitOnTasks); err != nil {
				return hx.Errf("background task failed: %v", err)
			}
			ndb, err := open(fmt.Sprintf("again%d", j), to[j], []recovery.CheckpointHandle{h})
			if err != nil {
				return err
			}
			again[j] = ndb
		}
		if err := checkAll(again, to, "after checkpointing the restored databases and restoring them again"); err != nil {
			return err
		}
	}
	chained := false
	if p.K > 0 && !p.SecondRestore {
		// a second change of the count: the new instances are checkpointed, their
		// handles recorded in another order and K instances opened from them
		k := p.K
		hasTables := false
		for _, f := range fs.List() {
			if strings.HasSuffix(f, ".sst") {
				hasTables = true
			}
		}
		h2 := make([]recovery.CheckpointHandle, len(news))
		for j, db := range news {
			h, err := db.Checkpoint(finalID + 1)()
			if err != nil {
				return hx.Errf("checkpoint of new database %d: %v", j, err)
			}
			if err := trk.Wait(db, db.WaitOnTasks); err != nil {
				return hx.Errf("background task failed: %v", err)
			}
			h2[j] = h
		}
		if k != p.N && p.M != p.N && hasTables && c.Known("C06-remerge-of-tables-holding-foreign-keys") {
			// Open finding, excluded by construction: tables that hold other ranges'
			// (stale) keys would be merged or split again. Where these checkpoints do
			// not put intersecting tables into one sorted level the second change is
			// explored, with prefix scans only (what an operator reads with: a scan
			// merges every table it visits by sequence number; a point lookup stops at
			// the first level that knows the key, which may be a stale copy).
			var ocs []*snapshotpb.OperatorCheckpoint
			for j, h := range h2 {
				ocs = append(ocs, &snapshotpb.OperatorCheckpoint{CheckpointId: h.CheckpointID, DkvFileUri: h.URI,
					KeyGroupRange: &snapshotpb.KeyGroupRange{Start: int32(to[j].Start), End: int32(to[j].End)}})
			}
			if opx.SortedLevelsOverlap(fs, ocs, partitioning.NewKeySpace(p.Groups, k).KeyGroupRanges()) {
				c.Label("avoided:C06-remerge-of-tables-holding-foreign-keys")
				k = p.N
			} else {
				c.Label("second-count-change-over-tables-holding-foreign-keys")
				scanOnly = true
			}
		}
		idx2 := make([]int, len(to))
		for i := range idx2 {
			idx2[i] = i
		}
		slices.SortStableFunc(idx2, func(a, b int) int { return p.Perm2[a] - p.Perm2[b] })
		perm2 := make([]partitioning.KeyGroupRange, len(to))
		for i, j := range idx2 {
			perm2[i] = to[j]
		}
		to3 := slices.Clone(partitioning.NewKeySpace(p.Groups, k).KeyGroupRanges())
		assign2 := partitioning.AssignRanges(to3, perm2)
		third := make([]*dkv.DB, len(to3))
		for j, r := range to3 {
			var hs []recovery.CheckpointHandle
			for _, fi := range assign2[j] {
				hs = append(hs, h2[idx2[fi]])
			}
			db, err := open(fmt.Sprintf("third%d", j), r, hs)
			if err != nil {
				return err
			}
			third[j] = db
		}
		from, perm = to, perm2 // (for the messages)
		if err := checkAll(third, to3, fmt.Sprintf("right after a second change of the count (%d -> %d -> %d)", p.M, p.N, k)); err != nil {
			return err
		}
		for step, o := range p.After2 {
			if _, err := apply(third, to3, o); err != nil {
				return err
			}
			if o.Kind != "wait" {
				if err := checkKey(third, to3, mkey(o), fmt.Sprintf("after step %d following the second change of the count (%s)", step, o.Kind)); err != nil {
					return err
				}
			}
		}
		for _, db := range third {
			if err := trk.Wait(db, db.WaitOnTasks); err != nil {
				return hx.Errf("background task failed: %v", err)
			}
		}
		if err := checkAll(third, to3, "after the writes following the second change of the count"); err != nil {
			return err
		}
		chained = k != p.N
	}
	c.LabelIf(chained, "chain-of-two-count-changes")
	c.LabelIf(unevenFiles, "old-operators-list-different-checkpoints")
	sorted := slices.IsSortedFunc(perm, func(a, b partitioning.KeyGroupRange) int { return a.Start - b.Start })
	c.LabelIf(p.M != p.N, "M!=N")
	c.LabelIf(!sorted, "non-identity-record-order")
	c.LabelIf(flushed > 0, "tables-before-the-checkpoint")
	c.LabelIf(rewrites > 0, "restored-key-rewritten")
	c.LabelIf(p.SecondRestore, "second-restore")
	if p.M != p.N && flushed > 0 && rewrites > 0 {
		c.NonTrivial()
	}
	return nil
}

func TestPropMergeRestore(t *testing.T) {
	hx.Run(t, hx.Spec{Prop: "C06", Persist: true, Rule: "the databases under a rescale, without operators: M=1..4 dkv.DB instances own the ranges of NewKeySpace(groups, M) (groups 1..16, memtable 64 B..1 MB, small tables, drawn compaction tuning) and take 1..60 puts/deletes/waits of key-group-prefixed keys with colliding names; each is checkpointed (in a third of the cases twice, with the retention update for the newer checkpoint reaching only a drawn subset, so that their checkpoints files list different checkpoints); the handles are recorded in a drawn order and N=1..4 new instances are opened with the handles AssignRanges gives them (LoadCheckpointList merge, ownership-filtered WAL replay, sequence numbers resumed); every key is read through Get and ScanPrefix at its new owner and compared with a map model, 0..25 further writes follow (two in three return to entries written before the checkpoint, the latest first), checked after each and after compactions settled, and in half of the cases every new instance is checkpointed and restored once more, or (a quarter) checkpointed and restored into a third count K with another record order and further writes (where the checkpoints would put intersecting tables into one sorted level this second change is replaced by a same-size restore: open finding; elsewhere it is explored with prefix scans only); non-trivial = M != N, a table flushed before the checkpoint and a restored key rewritten"}, genMerge, execMerge)
}
