// Package c10 checks C10: event-time timers fire exactly once, in order, and
// survive recovery, however many timers exist relative to the cache.
package c10

import (
	"bytes"
	"fmt"
	"runtime"
	"sort"
	"testing"
	"time"

	"google.golang.org/protobuf/types/known/timestamppb"
	"pgregory.net/rapid"
	"reduction.dev/reduction/dkv"
	"reduction.dev/reduction/dkv/recovery"
	"reduction.dev/reduction/partitioning"
	"reduction.dev/reduction/proto/workerpb"
	"reduction.dev/reduction/util/verifhook"
	"reduction.dev/reduction/workers/operator"
	"verifharness/hx"
	"verifharness/lsm"
	"verifharness/opx"
	"verifharness/refimpl"
)

// ---------------------------------------------------------------- registry + store on a real small DKV

type rop struct {
	Kind   string // set | advance | restore
	Key    int
	TS     int64
	Sender int
}
type rprog struct {
	Groups  int
	NOps    int // operators of the job: the store under test is the one of operator Idx
	Idx     int
	Cache   uint64
	Senders int
	MemTab  int
	NKeys   int
	Ops     []rop
}

func genReg(rt *rapid.T) rprog {
	p := rprog{
		Groups:  rapid.SampledFrom([]int{1, 2, 3, 8}).Draw(rt, "groups"),
		NOps:    rapid.SampledFrom([]int{1, 1, 2, 3}).Draw(rt, "nops"),
		Idx:     rapid.IntRange(0, 2).Draw(rt, "idx"),
		Cache:   rapid.SampledFrom([]uint64{1, 12, 13, 26, 30, 60, 200, 1 << 30}).Draw(rt, "cache"),
		Senders: rapid.IntRange(1, 3).Draw(rt, "senders"),
		MemTab:  rapid.SampledFrom([]int{96, 256, 1 << 20}).Draw(rt, "memtable"),
		NKeys:   rapid.IntRange(1, 8).Draw(rt, "nkeys"),
	}
	n := rapid.IntRange(2, 50).Draw(rt, "n")
	for i := 0; i < n; i++ {
		p.Ops = append(p.Ops, rop{
			Kind:   rapid.SampledFrom([]string{"set", "set", "set", "set", "advance", "advance", "restore"}).Draw(rt, "kind"),
			Key:    rapid.IntRange(0, 7).Draw(rt, "key"),
			TS:     rapid.OneOf(rapid.Int64Range(1, 10), rapid.Int64Range(1, 40)).Draw(rt, "ts"),
			Sender: rapid.IntRange(0, 2).Draw(rt, "sender"),
		})
	}
	return p
}

type tk struct {
	k  string
	ts int64
}

func execReg(p rprog, c *hx.Case) error {
	verifhook.SetTuner(nil)
	fs := lsm.NewGateFS()
	opts := dkv.DBOptions{FileSystem: fs, MemTableSize: uint64(p.MemTab), TargetFileSize: 256, L0TableNumCompactionTrigger: 2}
	db := dkv.Open(opts, nil)
	// the store of one operator of the job: its range need not start at group 0
	nops := max(1, min(p.NOps, p.Groups))
	ks := partitioning.NewKeySpace(p.Groups, nops)
	kgr := ks.KeyGroupRanges()[p.Idx%nops]
	senders := []string{"s0", "s1", "s2"}[:p.Senders]
	reg := operator.NewTimerRegistry(operator.NewTimerStore(db, ks, kgr, p.Cache), senders)
	// an operator only ever sees keys of its own range
	var keys [][]byte
	cand := append([][]byte(nil), hx.AdversarialKeys[1:]...)
	for i := 0; i < 64; i++ {
		cand = append(cand, []byte(fmt.Sprintf("k%d", i)))
	}
	for _, k := range cand {
		if g := refimpl.KeyGroup(k, p.Groups); g >= kgr.Start && g < kgr.End && len(keys) < p.NKeys {
			keys = append(keys, k)
		}
	}
	if len(keys) == 0 {
		return &hx.Inconclusive{Why: "no candidate key in the operator's range"}
	}
	pending := map[tk]bool{}
	ups := map[string]int64{}
	for _, s := range senders {
		ups[s] = 0
	}
	cached := int64(-1) << 62 // the registry's composite watermark: nothing reported yet
	var ckpt uint64
	fired, maxPending, resets, firedAfterRestore, repeats := 0, 0, 0, 0, 0
	setCount := map[tk]int{}
	var keep []*dkv.DB
	for step, o := range p.Ops {
		switch o.Kind {
		case "set":
			k := keys[o.Key%len(keys)]
			reg.SetTimer(k, time.Unix(0, o.TS))
			setCount[tk{string(k), o.TS}]++
			if setCount[tk{string(k), o.TS}] >= 3 {
				repeats++
			}
			if o.TS > cached { // setting a timer at or before the watermark is a no-op
				pending[tk{string(k), o.TS}] = true
			}
			maxPending = max(maxPending, len(pending))
		case "advance":
			s := senders[o.Sender%len(senders)]
			ups[s] = max(ups[s], o.TS)
			comp := int64(1) << 62
			for _, v := range ups {
				comp = min(comp, v)
			}
			cached = comp
			var want []tk
			for t := range pending {
				if t.ts <= comp {
					want = append(want, t)
				}
			}
			sort.Slice(want, func(i, j int) bool { return want[i].ts < want[j].ts })
			var got []tk
			for k, t := range reg.AdvanceWatermark(s, &workerpb.Watermark{Timestamp: timestamppb.New(time.Unix(0, ups[s]))}) {
				got = append(got, tk{string(k), t.UnixNano()})
			}
			// exactly the due timers, each once, in non-decreasing timestamp order
			seen := map[tk]bool{}
			for i, g := range got {
				if i > 0 && g.ts < got[i-1].ts {
					return hx.Errf("step %d: advance(%s,%d) fired timestamp %d after %d", step, s, ups[s], g.ts, got[i-1].ts)
				}
				if seen[g] {
					return hx.Errf("step %d: advance(%s,%d) fired timer (%q,%d) twice", step, s, ups[s], g.k, g.ts)
				}
				seen[g] = true
				if !pending[g] {
					return hx.Errf("step %d: advance(%s,%d) fired timer (%q,%d) which is not pending (never set, set at or before the watermark, or already fired)", step, s, ups[s], g.k, g.ts)
				}
				if g.ts > comp {
					return hx.Errf("step %d: advance(%s,%d): timer (%q,%d) fired but the minimum watermark is %d", step, s, ups[s], g.k, g.ts, comp)
				}
			}
			for _, wnt := range want {
				if !seen[wnt] {
					return hx.Errf("step %d: minimum watermark reached %d (cache %d bytes, %d timers pending) but timer (%q,%d) did not fire; fired: %v", step, comp, p.Cache, len(pending), wnt.k, wnt.ts, got)
				}
			}
			for g := range seen {
				delete(pending, g)
			}
			fired += len(got)
			if resets > 0 {
				firedAfterRestore += len(got)
			}
		case "restore":
			ckpt++
			h, err := db.Checkpoint(ckpt)()
			if err != nil {
				return hx.Errf("step %d: checkpoint: %v", step, err)
			}
			if err := db.WaitOnTasks(); err != nil {
				return hx.Errf("step %d: background task: %v", step, err)
			}
			// the successor is a new process working on a copy of the storage
			keep = append(keep, db)
			fs = fs.Fork(fs.JournalLen())
			opts.FileSystem = fs
			db = dkv.Open(opts, []recovery.CheckpointHandle{h})
			reg = operator.NewTimerRegistry(operator.NewTimerStore(db, ks, kgr, p.Cache), senders)
			// a fresh registry knows no watermarks yet
			for _, s := range senders {
				ups[s] = 0
			}
			cached = int64(-1) << 62
			resets++
		}
	}
	// drain: advance every upstream beyond every timer
	for _, s := range senders {
		ups[s] = 1000
		var got []tk
		for k, t := range reg.AdvanceWatermark(s, &workerpb.Watermark{Timestamp: timestamppb.New(time.Unix(0, 1000))}) {
			got = append(got, tk{string(k), t.UnixNano()})
		}
		for i, g := range got {
			if i > 0 && g.ts < got[i-1].ts {
				return hx.Errf("drain: fired timestamp %d after %d", g.ts, got[i-1].ts)
			}
			if !pending[g] {
				return hx.Errf("drain: fired timer (%q,%d) which is not pending", g.k, g.ts)
			}
			delete(pending, g)
		}
	}
	if len(pending) > 0 {
		var left []string
		for t := range pending {
			left = append(left, fmt.Sprintf("(%q,%d)", t.k, t.ts))
		}
		sort.Strings(left)
		return hx.Errf("drain: every upstream is at 1000 but %d timers never fired (cache %d bytes): %v", len(pending), p.Cache, left)
	}
	_ = bytes.Equal
	// rough per-timer cache footprint is 11 bytes + key
	c.LabelIf(uint64(maxPending*12) > p.Cache, "timers>cache")
	c.LabelIf(resets > 0, "restore")
	c.LabelIf(kgr.Start > 0, "range-not-starting-at-group-0")
	c.LabelIf(repeats > 0, "3x-same-timer")
	if uint64(maxPending*12) > p.Cache && fired > 0 && (resets == 0 || firedAfterRestore > 0) {
		c.NonTrivial()
	}
	db.WaitOnTasks()
	runtime.KeepAlive(keep)
	return nil
}

func TestPropRegistry(t *testing.T) {
	hx.Run(t, hx.Spec{Prop: "C10", Rule: "TimerRegistry+TimerStore on a real small DKV (exported constructors): 2..50 SetTimer (repeats of identical timers, ties) / AdvanceWatermark over 1..3 upstreams / checkpoint+restore into a fresh store, key-group counts 1..8 of which the store owns the range of one of 1..3 operators (keys drawn from that range), cache sizes from 1 byte (smaller than one timer) to everything-fits; each advance must fire exactly the pending timers <= the minimum watermark, once, in non-decreasing order; after the history every upstream is advanced beyond all timers and nothing may remain; non-trivial = more timers pending than the cache can hold and >=1 fired (after the restore if there was one)"}, genReg, execReg)
}

// ---------------------------------------------------------------- through the real Operator

var kinds = []string{"event", "event", "event", "event", "event", "wm", "wm", "wm", "flush", "flush", "checkpoint", "rescale", "probe"}

func genOp(rt *rapid.T) opx.History {
	h := opx.GenHistory(rt, kinds, 1, 3, true)
	for i := range h.Ops {
		if h.Ops[i].Kind == "rescale" { // same size: this is a plain restore
			h.Ops[i].N = 1
		}
	}
	return h
}

func execOp(p opx.History, c *hx.Case) error {
	st, err := opx.ExecHistory(p, c)
	if err != nil {
		return err
	}
	c.LabelIf(st.Rescales > 0, "restore")
	c.LabelIf(p.Tune.TimerCache > 0, "small-timer-cache")
	c.LabelIf(st.Reregistered > 0, "3x-same-timer")
	if st.Fired > 0 && p.Tune.TimerCache > 0 && (st.Rescales == 0 || st.PendingAtRestore > 0) {
		c.NonTrivial()
	}
	return nil
}

func TestPropOperatorTimers(t *testing.T) {
	hx.Run(t, hx.Spec{Prop: "C10", Persist: true, Rule: "one real Operator with 1..3 upstreams, its timer cache shrunk through the verif hook (20..400 bytes or default) and its DKV tuned tiny: 3..60 steps of keyed events whose scripts set 0..3 timers (timestamps 1..60, ties and repeats), upstream watermarks, batch flushes, checkpoints and restores into a fresh operator; the reference handler requires every TimerExpired to be pending (never twice, never one set at/before the watermark) and <= the watermark it is told, and after every flush no pending timer <= the minimum watermark may remain; non-trivial = shrunk cache, >=1 timer fired, and a restore with timers pending if there was a restore"}, genOp, execOp)
}
