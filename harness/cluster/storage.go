// Package cluster is the L5 harness: the real jobs.Job, real operators and
// source runners, the real batching and snapshot store, wired in one process
// through transports that the harness owns (every inter-node call is a gate at
// which the fault plan can act), with a reference handler and a bounded
// harness source.
package cluster

import (
	"bytes"
	"io"
	"iter"
	"path/filepath"
	"sort"
	"strings"
	"sync"

	"reduction.dev/reduction/dkv/storage"
	"reduction.dev/reduction/storage/locations"
)

// MemLoc is a locations.StorageLocation over the same MemoryFilesystem the
// operators' databases use, so that the job (snapshots, savepoint artifacts)
// and the databases share one storage, like a shared disk or bucket. The job's
// own URIs are plain absolute paths (as LocalDirectory returns); database URIs
// ("memory:///abs/path") are accepted everywhere; relative paths live under Root.
type MemLoc struct {
	FS   *storage.MemoryFilesystem
	Root string
	mu   sync.Mutex
	// Journal of job-level writes and removes (paths only)
	Ops []string
	// ReadHook, if set, runs before a file is read (used to make the assembly of a
	// savepoint artifact slow)
	ReadHook func(path string)
}

func NewMemLoc(fs *storage.MemoryFilesystem, root string) *MemLoc {
	return &MemLoc{FS: fs, Root: root}
}

func (m *MemLoc) abs(p string) string {
	p = strings.TrimPrefix(p, "memory://")
	if filepath.IsAbs(p) {
		return p
	}
	return filepath.Join(m.Root, p)
}

func (m *MemLoc) note(s string) {
	m.mu.Lock()
	m.Ops = append(m.Ops, s)
	m.mu.Unlock()
}

func (m *MemLoc) Write(path string, data io.Reader) (string, error) {
	b, err := io.ReadAll(data)
	if err != nil {
		return "", err
	}
	f := m.FS.New(m.abs(path))
	if _, err := f.Write(b); err != nil {
		return "", err
	}
	if err := f.Save(); err != nil {
		return "", err
	}
	m.note("write " + m.abs(path))
	return m.abs(path), nil
}

func (m *MemLoc) Read(path string) ([]byte, error) {
	m.mu.Lock()
	hook := m.ReadHook
	m.mu.Unlock()
	if hook != nil {
		hook(m.abs(path))
	}
	if !m.FS.Exists(m.abs(path)) {
		return nil, locations.ErrNotFound
	}
	f := m.FS.Open(m.abs(path))
	var out bytes.Buffer
	buf := make([]byte, 8192)
	var off int64
	for {
		n, err := f.ReadAt(buf, off)
		out.Write(buf[:n])
		off += int64(n)
		if err != nil || n == 0 {
			break
		}
	}
	return out.Bytes(), nil
}

func (m *MemLoc) all() []string {
	sub := m.FS.WithWorkingDir("/")
	paths := sub.List()
	for i := range paths {
		paths[i] = "/" + strings.TrimPrefix(paths[i], "/")
	}
	sort.Strings(paths)
	return paths
}

// List yields the job's own files (under Root) in lexical order, as a
// directory walk of the job's storage directory would.
func (m *MemLoc) List() iter.Seq2[string, error] {
	var mine []string
	for _, p := range m.all() {
		if strings.HasPrefix(p, m.Root+"/") {
			mine = append(mine, p)
		}
	}
	return func(yield func(string, error) bool) {
		for _, p := range mine {
			if !yield(p, nil) {
				return
			}
		}
	}
}

func (m *MemLoc) URI(path string) (string, error) {
	if !m.FS.Exists(m.abs(path)) {
		return "", locations.ErrNotFound
	}
	return m.abs(path), nil
}

func (m *MemLoc) Copy(src, dst string) error {
	if !m.FS.Exists(m.abs(src)) {
		return locations.ErrNotFound
	}
	m.note("copy " + m.abs(dst))
	return m.FS.Copy(m.abs(src), m.abs(dst))
}

func (m *MemLoc) Remove(paths ...string) error {
	for _, p := range paths {
		if m.FS.Exists(m.abs(p)) {
			m.FS.Open(m.abs(p)).Delete()
		}
		m.note("remove " + m.abs(p))
	}
	return nil
}

// RemoveTree deletes everything under a directory (wiping working storage).
func (m *MemLoc) RemoveTree(dir string) int {
	n := 0
	for _, p := range m.all() {
		if strings.HasPrefix(p, dir+"/") {
			m.FS.Open(p).Delete()
			n++
		}
	}
	return n
}

// Files lists every file of the shared storage.
func (m *MemLoc) Files() []string { return m.all() }

var _ locations.StorageLocation = (*MemLoc)(nil)
