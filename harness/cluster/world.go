package cluster

import (
	"connectrpc.com/connect"
	"context"
	"encoding/json"
	"fmt"
	"log/slog"
	"runtime"
	"sort"
	"strings"
	"sync"
	"sync/atomic"
	"time"

	"google.golang.org/protobuf/types/known/timestamppb"
	"reduction.dev/reduction-protocol/handlerpb"
	"reduction.dev/reduction-protocol/jobconfigpb"
	"reduction.dev/reduction/batching"
	"reduction.dev/reduction/clocks"
	"reduction.dev/reduction/config"
	"reduction.dev/reduction/connectors"
	"reduction.dev/reduction/dkv"
	"reduction.dev/reduction/dkv/sst"
	"reduction.dev/reduction/dkv/storage"
	"reduction.dev/reduction/jobs"
	"reduction.dev/reduction/proto"
	"reduction.dev/reduction/proto/jobpb"
	"reduction.dev/reduction/proto/snapshotpb"
	"reduction.dev/reduction/proto/workerpb"
	"reduction.dev/reduction/rpc"
	"reduction.dev/reduction/util/verifhook"
	"reduction.dev/reduction/workers/operator"
	"reduction.dev/reduction/workers/sourcerunner"
	"verifharness/hx"
)

// Rec is one source record.
type Rec struct {
	Split string
	Idx   int // position within the split
	Key   string
	Ord   int   // ordinal among the keyed events of the same (split, key)
	Sub   int   `json:",omitempty"` // which keyed event of its record this is (0 = the first)
	Fan   []Fan `json:",omitempty"` // further keyed events KeyEvent derives from this record (a source record only)
}

// Fan is one additional keyed event of a record: a record may be keyed into
// several events, each with a key of its own.
type Fan struct {
	Key string
	Ord int
}

// at orders the keyed events of one split: by record, then by position in the
// record's result.
func (r Rec) at() int { return r.Idx*8 + r.Sub }

// Config of a cluster case.
type Config struct {
	Workers   int
	Groups    int
	Splits    int
	Batch     int
	ReadBatch int
	MemTable  int
	RankSeed  uint32
}

// ---------------------------------------------------------------- source

type source struct {
	w     *World
	data  map[string][]Rec
	ids   []string // split ids in order
	epoch int64    // the job process this source configuration belongs to
}

// zombie: the job process that holds this source has been replaced.
func (s *source) zombie() bool { return s.epoch != s.w.jobEpoch.Load() }

func (s *source) Validate() error { return nil }
func (s *source) ProtoMessage() *jobconfigpb.Source {
	return &jobconfigpb.Source{Config: &jobconfigpb.Source_Embedded{Embedded: &jobconfigpb.EmbeddedSource{}}}
}
func (s *source) NewSourceSplitter(ids []string, hooks connectors.SourceSplitterHooks, errc chan<- error) connectors.SourceSplitter {
	// a new incarnation of the assembly: from here on the progress model ignores
	// handler invocations of operators deployed for earlier incarnations
	if s.zombie() {
		return &splitter{src: s, runners: ids, hooks: hooks, gen: -1}
	}
	return &splitter{src: s, runners: ids, hooks: hooks, gen: s.w.gen.Add(1)}
}
func (s *source) NewSourceReader(connectors.SourceReaderHooks) connectors.SourceReader {
	return &reader{src: s, pos: map[string]int{}}
}

type cursor struct {
	Pos   int
	Round int // which splitter start produced the assignment (harness bookkeeping)
}

// Round is one splitter start: the checkpoint it resumed from and what the readers applied.
type Round struct {
	CkptID  uint64
	Pos     map[string]int   // positions found in the restored checkpoint
	Applied map[string][]int // split -> positions at which readers took it over
}

type splitState struct {
	Split string
	Pos   int
}

type splitter struct {
	connectors.UnimplementedSourceSplitter
	src     *source
	runners []string
	hooks   connectors.SourceSplitterHooks
	gen     int64
}

func (s *splitter) IsSourceSplitter() {}
func (s *splitter) Start(ck *snapshotpb.SourceCheckpoint) error {
	pos := map[string]int{}
	seen := map[string]int{}
	for _, st := range ck.GetSplitStates() {
		var ss splitState
		if json.Unmarshal(st, &ss) == nil {
			pos[ss.Split] = ss.Pos
			seen[ss.Split]++
		}
	}
	if s.gen < 0 || s.src.zombie() {
		// a replaced job process that is still running: what it does reaches nobody
		return nil
	}
	s.src.w.noteRestoredSplits(seen)
	round := s.src.w.newRound(ck.GetCheckpointId(), pos)
	// the engine has gone back to the checkpoint: so does the progress model
	base := map[string]int{}
	for id, n := range pos {
		d := s.src.data[id]
		for i := 0; i < n && i < len(d); i++ {
			base[d[i].Key+"/"+id] = d[i].Ord + 1
			for _, f := range d[i].Fan {
				base[f.Key+"/"+id] = f.Ord + 1
			}
		}
	}
	s.src.w.H.mu.Lock()
	s.src.w.H.Applied = base
	s.src.w.H.mu.Unlock()
	s.src.w.startedGen.Store(s.gen)
	as := map[string][]*workerpb.SourceSplit{}
	for i, id := range s.src.ids {
		c, _ := json.Marshal(cursor{Pos: pos[id], Round: round})
		r := s.runners[i%len(s.runners)]
		as[r] = append(as[r], &workerpb.SourceSplit{SplitId: id, Cursor: c})
	}
	s.hooks.AssignSplits(as)
	return nil
}
func (s *splitter) Close() error                          { return nil }
func (s *splitter) NotifySplitsFinished(string, []string) {}
func (s *splitter) Checkpoint() []byte                    { return nil }

type reader struct {
	src    *source
	mu     sync.Mutex
	splits []string
	pos    map[string]int
	runner string
}

func (r *reader) AssignSplits(sp []*workerpb.SourceSplit) error {
	r.mu.Lock()
	defer r.mu.Unlock()
	for _, s := range sp {
		var c cursor
		json.Unmarshal(s.Cursor, &c)
		r.splits = append(r.splits, s.SplitId)
		r.pos[s.SplitId] = c.Pos
		r.src.w.noteAssigned(s.SplitId, c.Pos, c.Round)
	}
	return nil
}
func (r *reader) ReadEvents() ([][]byte, error) {
	r.mu.Lock()
	defer r.mu.Unlock()
	var out [][]byte
	n := max(1, r.src.w.Cfg.ReadBatch)
	for _, s := range r.splits {
		d := r.src.data[s]
		for k := 0; k < n && r.pos[s] < len(d); k++ {
			b, _ := json.Marshal(d[r.pos[s]])
			out = append(out, b)
			r.pos[s]++
		}
	}
	if len(out) == 0 {
		time.Sleep(300 * time.Microsecond) // idle: never end of input
	}
	return out, nil
}
func (r *reader) Checkpoint() [][]byte {
	r.mu.Lock()
	defer r.mu.Unlock()
	var out [][]byte
	for _, s := range r.splits {
		b, _ := json.Marshal(splitState{s, r.pos[s]})
		out = append(out, b)
	}
	return out
}

// ---------------------------------------------------------------- handler

// Handler is the reference handler: per (key, split) it keeps the number of
// records applied, in state; on every invocation the supplied count must equal
// the record's ordinal.
type Handler struct {
	mu          sync.Mutex
	w           *World
	violations  []string
	Applied     map[string]int // "key/split" -> highest ordinal applied + 1 (model, for progress only)
	Invocations int
	KeyLatency  func(n int)
}

func (h *Handler) violate(f string, a ...any) {
	if len(h.violations) < 12 {
		h.violations = append(h.violations, fmt.Sprintf(f, a...))
	}
}

func (h *Handler) KeyEventBatch(ctx context.Context, evs [][]byte) ([][]*handlerpb.KeyedEvent, error) {
	h.w.mu.Lock()
	h.w.keyCalls++
	h.w.MaxKeyCalls = max(h.w.MaxKeyCalls, h.w.keyCalls)
	h.w.mu.Unlock()
	defer func() { h.w.mu.Lock(); h.w.keyCalls--; h.w.mu.Unlock() }()
	if h.KeyLatency != nil {
		h.KeyLatency(len(evs))
	}
	out := make([][]*handlerpb.KeyedEvent, len(evs))
	for i, e := range evs {
		var r Rec
		if err := json.Unmarshal(e, &r); err != nil {
			return nil, err
		}
		ts := timestamppb.New(time.Unix(int64(r.Idx+1), 0))
		if len(r.Fan) == 0 {
			out[i] = []*handlerpb.KeyedEvent{{Key: []byte(r.Key), Value: e, Timestamp: ts}}
			continue
		}
		first, _ := json.Marshal(Rec{Split: r.Split, Idx: r.Idx, Key: r.Key, Ord: r.Ord})
		out[i] = []*handlerpb.KeyedEvent{{Key: []byte(r.Key), Value: first, Timestamp: ts}}
		for j, f := range r.Fan {
			v, _ := json.Marshal(Rec{Split: r.Split, Idx: r.Idx, Key: f.Key, Ord: f.Ord, Sub: j + 1})
			out[i] = append(out[i], &handlerpb.KeyedEvent{Key: []byte(f.Key), Value: v, Timestamp: ts})
		}
	}
	return out, nil
}

// workerHandler is the handler as one worker process sees it: it tells the
// reference handler which incarnation of the assembly the invocation belongs to.
type workerHandler struct {
	*Handler
	x *Worker
}

func (wh workerHandler) ProcessEventBatch(ctx context.Context, req *handlerpb.ProcessEventBatchRequest) (*handlerpb.ProcessEventBatchResponse, error) {
	return wh.Handler.process(req, wh.x.gen.Load())
}

func (h *Handler) ProcessEventBatch(ctx context.Context, req *handlerpb.ProcessEventBatchRequest) (*handlerpb.ProcessEventBatchResponse, error) {
	return h.process(req, h.w.gen.Load())
}

func (h *Handler) process(req *handlerpb.ProcessEventBatchRequest, gen int64) (*handlerpb.ProcessEventBatchResponse, error) {
	h.mu.Lock()
	defer h.mu.Unlock()
	h.Invocations++
	current := gen == h.w.gen.Load()
	st := map[string]map[string]int{}
	for _, ks := range req.KeyStates {
		m := map[string]int{}
		for _, ns := range ks.StateEntryNamespaces {
			if ns.Namespace != "cnt" {
				h.violate("key %q: unexpected namespace %q in supplied state", ks.Key, ns.Namespace)
			}
			for _, e := range ns.Entries {
				var v int
				json.Unmarshal(e.Value, &v)
				if _, dup := m[string(e.Key)]; dup {
					h.violate("key %q: entry %q supplied twice", ks.Key, e.Key)
				}
				m[string(e.Key)] = v
			}
		}
		st[string(ks.Key)] = m
	}
	resp := &handlerpb.ProcessEventBatchResponse{}
	for _, ev := range req.Events {
		ke := ev.GetKeyedEvent()
		if ke == nil {
			continue
		}
		var r Rec
		if err := json.Unmarshal(ke.Value, &r); err != nil {
			h.violate("undecodable record")
			continue
		}
		m := st[r.Key]
		if m == nil {
			h.violate("no state supplied for key %q", r.Key)
			m = map[string]int{}
			st[r.Key] = m
		}
		switch {
		case m[r.Split] < r.Ord:
			h.violate("record %d of split %s (key %q) reached the handler with state saying %d earlier records of that split and key were applied, but it is number %d: the effect of a record was lost", r.Idx, r.Split, r.Key, m[r.Split], r.Ord)
		case m[r.Split] > r.Ord:
			h.violate("record %d of split %s (key %q, number %d of that split and key) reached the handler although the state already counts %d: a record's effect would be applied twice", r.Idx, r.Split, r.Key, r.Ord, m[r.Split])
		}
		m[r.Split] = r.Ord + 1
		if current {
			h.Applied[r.Key+"/"+r.Split] = r.Ord + 1
		}
		v, _ := json.Marshal(m[r.Split])
		resp.KeyResults = append(resp.KeyResults, &handlerpb.KeyResult{Key: []byte(r.Key), StateMutationNamespaces: []*handlerpb.StateMutationNamespace{{
			Namespace: "cnt", Mutations: []*handlerpb.StateMutation{{Mutation: &handlerpb.StateMutation_Put{Put: &handlerpb.PutMutation{Key: []byte(r.Split), Value: v}}}}}}})
	}
	return resp, nil
}

func (h *Handler) Violations() []string {
	h.mu.Lock()
	defer h.mu.Unlock()
	return append([]string(nil), h.violations...)
}

// ---------------------------------------------------------------- world

// Worker is one process: an operator and a source runner.
type Worker struct {
	Name    string
	Op      *operator.Operator
	SR      *sourcerunner.SourceRunner
	alive   atomic.Bool
	exiting atomic.Bool
	gen     atomic.Int64 // incarnation of the assembly the operator was last deployed for
	depOp   atomic.Bool  // the operator has been deployed once
	depSR   atomic.Bool
	stop    func()
}

// GateFn is called at every inter-node call; n counts calls.
type GateFn func(n int, kind, from, to string)

// World is one cluster case.
type World struct {
	Cfg        Config
	FS         *storage.MemoryFilesystem
	Loc        *MemLoc
	H          *Handler
	Job        *jobs.Job
	Clock      *hx.Clock
	oldClocks  []*hx.Clock // clocks of replaced job processes: time passes for them too
	Src        *source
	ErrC       chan error
	mu         sync.Mutex
	workers    map[string]*Worker
	byNode     map[string]*Worker // operator id / source runner id -> worker
	dead       []*Worker
	dbs        map[any]bool
	dbActivity atomic.Int64 // hook points passed by the databases' memtable rotations, flushes and compactions
	gateN      atomic.Int64
	Gate       GateFn
	jobAlive   atomic.Bool
	holdAcks   atomic.Bool
	holdEvents atomic.Bool
	jobEpoch   atomic.Int64
	// observations
	StartCkpts    []uint64
	SRAcks        []*jobpb.SourceRunnerCheckpointCompleteRequest
	OpAcks        []*snapshotpb.OperatorCheckpoint
	Assigned      []string // "split@pos" in assignment order
	Rounds        []*Round
	gen           atomic.Int64 // incarnations of the assembly (one per source splitter the job created)
	startedGen    atomic.Int64 // the last incarnation whose splitter was started (its deploy succeeded)
	Deploys       int
	Assembly      []string // operator ids of the latest deployment, in range order
	MaxKeyCalls   int      // most KeyEventBatch calls in flight at once
	keyCalls      int
	RestoredDups  []string
	Delivered     map[string][]Delivered // operator id -> events in arrival order
	nameSeq       int
	NamePrefix    string // worker names of this world: a job started later on the same storage runs in new processes, whose operator ids (random in production) never repeat
	pointHook     func(name string)
	Exited        chan string      // workers that exited on their own (a supervisor restarts them)
	wmTickers     []chan time.Time // the watermark tickers of every source runner deployed so far
	PubHook       func(id uint64)  // runs where the publication of a completed checkpoint begins (its own goroutine)
	HandlerPanics []string         // RPC handlers that panicked (the worker process exits, as with util/httpu)
	// AvoidRedeploy, if set and true, makes a worker restart as a new process when
	// it is asked to deploy a second time (open finding, excluded by construction)
	AvoidRedeploy func() bool
	jobParams     *jobs.NewParams
	Log           LogBuf
}

// LogBuf keeps the most recent log lines.
type LogBuf struct {
	mu      sync.Mutex
	lines   []string
	running bool
	jobTag  string // instanceID of the current job process
}

func (l *LogBuf) setJob(tag string) {
	l.mu.Lock()
	l.jobTag, l.running = tag, false
	l.mu.Unlock()
}

// JobRunning reports whether the job's last logged status change was to Running.
func (l *LogBuf) JobRunning() bool {
	l.mu.Lock()
	defer l.mu.Unlock()
	return l.running
}

func (l *LogBuf) Write(p []byte) (int, error) {
	l.mu.Lock()
	// follow the job's status transitions (it offers no accessor)
	if line := string(p); strings.Contains(line, "instanceID="+l.jobTag+" ") || strings.HasSuffix(strings.TrimSpace(line), "instanceID="+l.jobTag) {
		switch {
		case strings.Contains(line, "msg=running"):
			l.running = true
		case strings.Contains(line, "msg=starting"), strings.Contains(line, "assembly not healthy"), strings.Contains(line, "failed to start job"):
			l.running = false
		}
	}
	l.lines = append(l.lines, strings.TrimRight(string(p), "\n"))
	if len(l.lines) > 400 {
		l.lines = l.lines[len(l.lines)-300:]
	}
	l.mu.Unlock()
	return len(p), nil
}

// Tail returns the last n lines.
func (l *LogBuf) Tail(n int) []string {
	l.mu.Lock()
	defer l.mu.Unlock()
	if len(l.lines) > n {
		return append([]string(nil), l.lines[len(l.lines)-n:]...)
	}
	return append([]string(nil), l.lines...)
}

// Delivered is one event as an operator received it.
type Delivered struct {
	From string
	Kind string // rec | wm | barrier
	Rec  Rec
	ID   uint64
	WM   int64
}

func (w *World) noteAssigned(split string, pos, round int) {
	w.mu.Lock()
	w.Assigned = append(w.Assigned, fmt.Sprintf("%s@%d", split, pos))
	if round >= 1 && round <= len(w.Rounds) {
		r := w.Rounds[round-1]
		r.Applied[split] = append(r.Applied[split], pos)
	}
	w.mu.Unlock()
}

func (w *World) newRound(ckpt uint64, pos map[string]int) int {
	w.mu.Lock()
	defer w.mu.Unlock()
	w.Rounds = append(w.Rounds, &Round{CkptID: ckpt, Pos: pos, Applied: map[string][]int{}})
	return len(w.Rounds)
}

func (w *World) noteRestoredSplits(seen map[string]int) {
	w.mu.Lock()
	for s, n := range seen {
		if n > 1 {
			w.RestoredDups = append(w.RestoredDups, fmt.Sprintf("%s x%d", s, n))
		}
	}
	w.mu.Unlock()
}

// HoldAcks makes checkpoint acknowledgements wait at the transport (bounded),
// which keeps a checkpoint pending for as long as the harness wants.
func (w *World) HoldAcks(on bool) { w.holdAcks.Store(on) }

// HoldEvents makes every HandleEventBatch call wait (the operators are busy).
func (w *World) HoldEvents(on bool) { w.holdEvents.Store(on) }

func (w *World) gate(kind, from, to string) {
	if kind == "events" {
		// (operators that do not take events for a while: a slow handler, a long
		// alignment; at most 2 s)
		for i := 0; i < 40000 && w.holdEvents.Load(); i++ {
			time.Sleep(50 * time.Microsecond)
		}
	}
	if kind == "op-ack" || kind == "sr-ack" {
		for i := 0; i < 40000 && w.holdAcks.Load(); i++ {
			time.Sleep(50 * time.Microsecond)
		}
	}
	n := int(w.gateN.Add(1))
	if g := w.Gate; g != nil {
		g(n, kind, from, to)
	}
}

// NewWorld builds the storage, source, handler and job; no workers yet.
func NewWorld(cfg Config, data map[string][]Rec, savepointURI string, fs *storage.MemoryFilesystem) (*World, error) {
	if fs == nil {
		fs = storage.NewMemoryFilesystem()
	}
	w := &World{Cfg: cfg, FS: fs, Loc: NewMemLoc(fs, "/job"), Clock: hx.NewClock(), ErrC: make(chan error, 256),
		workers: map[string]*Worker{}, byNode: map[string]*Worker{}, dbs: map[any]bool{}, Delivered: map[string][]Delivered{}, Exited: make(chan string, 64)}
	w.H = &Handler{w: w, Applied: map[string]int{}}
	// the engine's own log of this case, kept for failure reports
	slog.SetDefault(slog.New(slog.NewTextHandler(&w.Log, &slog.HandlerOptions{Level: slog.LevelInfo})))
	ids := make([]string, 0, len(data))
	for id := range data {
		ids = append(ids, id)
	}
	sort.Strings(ids)
	w.Src = &source{w: w, data: data, ids: ids, epoch: 1}
	w.installHooks()
	w.jobParams = &jobs.NewParams{
		JobConfig: &config.Config{WorkerCount: cfg.Workers, KeyGroupCount: cfg.Groups, WorkingStorageLocation: "/work", Sources: []connectors.SourceConfig{w.Src}},
		Clock:     w.Clock, Store: w.Loc, ErrChan: w.ErrC, SavepointURI: savepointURI,
	}
	w.jobEpoch.Store(1)
	w.setFactories(w.jobParams, 1)
	job, err := jobs.New(w.jobParams)
	if err != nil {
		return nil, hx.Errf("jobs.New: %v", err)
	}
	w.Job = job
	w.jobAlive.Store(true)
	return w, nil
}

// RestartJob abandons the job object and creates a new one on the same storage.
func (w *World) RestartJob() error {
	w.jobAlive.Store(false)
	p := *w.jobParams
	p.SavepointURI = ""
	e := w.jobEpoch.Add(1) // fences every client of the previous job process
	w.setFactories(&p, e)
	src := *w.Src
	src.epoch = e
	w.mu.Lock()
	w.Src = &src
	w.mu.Unlock()
	cfg := *p.JobConfig
	cfg.Sources = []connectors.SourceConfig{w.Src}
	p.JobConfig = &cfg
	// its own clock (timer labels are per clock), starting at the same time
	nc := hx.NewClock()
	nc.Advance(w.Clock.Now().Sub(nc.Now()))
	w.oldClocks = append(w.oldClocks, w.Clock)
	w.Clock = nc
	p.Clock = nc
	job, err := jobs.New(&p)
	if err != nil {
		return hx.Errf("restarting the job: %v", err)
	}
	w.mu.Lock()
	w.Job = job
	w.mu.Unlock()
	w.jobAlive.Store(true)
	return nil
}

// J is the current job process (workers talk to it from their own goroutines).
func (w *World) J() *jobs.Job {
	w.mu.Lock()
	defer w.mu.Unlock()
	return w.Job
}

func (w *World) source() *source {
	w.mu.Lock()
	defer w.mu.Unlock()
	return w.Src
}

func (w *World) setFactories(p *jobs.NewParams, epoch int64) {
	tag := fmt.Sprintf("job%d", epoch)
	w.Log.setJob(tag)
	p.Logger = slog.With("instanceID", tag)
	p.OperatorFactory = func(sender string, n *jobpb.NodeIdentity) proto.Operator {
		return &opClient{w: w, sender: sender, node: n, epoch: epoch}
	}
	p.SourceRunnerFactory = func(n *jobpb.NodeIdentity) proto.SourceRunner { return &srClient{w: w, node: n, epoch: epoch} }
}

func (w *World) installHooks() {
	rank := w.Cfg.RankSeed | 1
	var mu sync.Mutex
	verifhook.SetPoint(func(name string, args ...any) {
		// keep every database object reachable for the whole case: a killed worker is
		// a dead process whose cleanups must never run (and see the open finding
		// about the cleanups of a redeployed survivor's previous database)
		if strings.HasPrefix(name, "dkv.") && len(args) > 0 {
			w.dbActivity.Add(1)
			w.mu.Lock()
			w.dbs[args[0]] = true
			h := w.pointHook
			w.mu.Unlock()
			if h != nil {
				h(name)
			}
		}
		if name == "snapshots.publish.begin" && len(args) >= 2 {
			w.mu.Lock()
			h := w.PubHook
			w.mu.Unlock()
			if h != nil {
				h(args[1].(uint64))
			}
		}
	})
	verifhook.SetTuner(func(name string, v any) {
		switch name {
		case "sourcerunner.watermark_ticker":
			// the 200 ms watermark ticker of a source runner becomes the harness's: it
			// ticks when the fault plan says so
			tp := v.(**time.Ticker)
			(*tp).Stop()
			ch := make(chan time.Time, 4)
			*tp = &time.Ticker{C: ch}
			w.mu.Lock()
			w.wmTickers = append(w.wmTickers, ch)
			w.mu.Unlock()
		case "dkv.options":
			o := v.(*dkv.DBOptions)
			if lf, ok := o.FileSystem.(*storage.LocalFilesystem); ok {
				o.FileSystem = w.FS.WithWorkingDir(lf.Dir)
			}
			if w.Cfg.MemTable > 0 {
				o.MemTableSize = uint64(w.Cfg.MemTable)
				o.MaxWALSize = uint64(w.Cfg.MemTable * 4)
				o.TargetFileSize = uint64(max(64, w.Cfg.MemTable/2))
			}
		case "dkv.compactor":
			c := v.(*sst.Compactor)
			if w.Cfg.MemTable > 0 {
				c.SmallestLevelSize = 1024
			}
		case "ziptree.rank":
			mu.Lock()
			rank = rank*1664525 + 1013904223
			*(v.(*uint32)) = rank >> 8
			mu.Unlock()
		}
	})
}

// Close stops everything.
func (w *World) Close() {
	w.mu.Lock()
	ws := make([]*Worker, 0, len(w.workers))
	for _, x := range w.workers {
		ws = append(ws, x)
	}
	w.mu.Unlock()
	for _, x := range ws {
		w.Kill(x.Name)
	}
	w.jobAlive.Store(false)
	w.jobEpoch.Add(1)
	// let every job object of this case (they cannot be stopped) find its nodes
	// expired, so that none keeps retrying deployments
	w.Clock.Advance(time.Minute)
	for _, c := range w.oldClocks {
		c.Advance(time.Minute)
	}
	time.Sleep(300 * time.Microsecond)
	w.QuiesceDBs() // nothing of this case runs on into the next one
	verifhook.SetTuner(nil)
	verifhook.SetPoint(nil)
	runtime.KeepAlive(w.dead)
}

// ---------------------------------------------------------------- transports

type jobClient struct {
	w    *World
	from *Worker
}

func (c jobClient) ok() bool { return c.from.alive.Load() && c.w.jobAlive.Load() }
func (c jobClient) RegisterSourceRunner(ctx context.Context, n *jobpb.NodeIdentity) error {
	if c.ok() {
		c.w.J().HandleRegisterSourceRunner(n)
	}
	return nil
}
func (c jobClient) DeregisterSourceRunner(ctx context.Context, n *jobpb.NodeIdentity) error {
	if c.ok() {
		c.w.J().HandleDeregisterSourceRunner(n)
	}
	return nil
}
func (c jobClient) RegisterOperator(ctx context.Context, n *jobpb.NodeIdentity) error {
	if c.ok() {
		c.w.J().HandleRegisterOperator(n)
	}
	return nil
}
func (c jobClient) DeregisterOperator(ctx context.Context, n *jobpb.NodeIdentity) error {
	if c.ok() {
		c.w.J().HandleDeregisterOperator(n)
	}
	return nil
}
func (c jobClient) OperatorCheckpointComplete(ctx context.Context, r *snapshotpb.OperatorCheckpoint) error {
	c.w.gate("op-ack", r.OperatorId, "job")
	if !c.ok() {
		return fmt.Errorf("job unreachable")
	}
	c.w.mu.Lock()
	c.w.OpAcks = append(c.w.OpAcks, r)
	c.w.mu.Unlock()
	return c.w.J().HandleOperatorCheckpointComplete(ctx, r)
}
func (c jobClient) OnSourceRunnerCheckpointComplete(ctx context.Context, r *jobpb.SourceRunnerCheckpointCompleteRequest) error {
	c.w.gate("sr-ack", r.SourceRunnerId, "job")
	if !c.ok() {
		return fmt.Errorf("job unreachable")
	}
	c.w.mu.Lock()
	c.w.SRAcks = append(c.w.SRAcks, r)
	c.w.mu.Unlock()
	return c.w.J().HandleSourceRunnerCheckpointComplete(ctx, r)
}
func (c jobClient) NotifySplitsFinished(ctx context.Context, id string, s []string) error {
	if c.ok() {
		return c.w.J().HandleNotifySplitsFinished(id, s)
	}
	return nil
}

type opClient struct {
	w      *World
	sender string
	node   *jobpb.NodeIdentity
	epoch  int64 // job incarnation that created this client (0: created by a worker)
}

// stale: the call comes from a job process that has been replaced.
func (c *opClient) stale() bool { return c.epoch != 0 && c.epoch != c.w.jobEpoch.Load() }

func (c *opClient) ID() string   { return c.node.Id }
func (c *opClient) Host() string { return c.node.Host }
func (c *opClient) target() *Worker {
	c.w.mu.Lock()
	defer c.w.mu.Unlock()
	x := c.w.byNode[c.node.Id]
	if x == nil || !x.alive.Load() {
		return nil
	}
	return x
}
func (c *opClient) senderAlive() bool {
	if c.sender == "job" {
		return c.w.jobAlive.Load()
	}
	c.w.mu.Lock()
	defer c.w.mu.Unlock()
	x := c.w.byNode[c.sender]
	return x != nil && x.alive.Load()
}
func (c *opClient) HandleEventBatch(ctx context.Context, b []*workerpb.Event) (err error) {
	c.w.gate("events", c.sender, c.node.Id)
	t := c.target()
	if t == nil || !c.senderAlive() {
		return fmt.Errorf("operator %s unreachable", c.node.Id)
	}
	defer c.w.handlerPanic(t, "HandleEventBatch", &err)
	for _, e := range b {
		d := Delivered{From: c.sender}
		switch ev := e.Event.(type) {
		case *workerpb.Event_KeyedEvent:
			d.Kind = "rec"
			json.Unmarshal(ev.KeyedEvent.Value, &d.Rec)
		case *workerpb.Event_Watermark:
			d.Kind, d.WM = "wm", ev.Watermark.Timestamp.AsTime().UnixNano()
		case *workerpb.Event_CheckpointBarrier:
			d.Kind, d.ID = "barrier", ev.CheckpointBarrier.CheckpointId
		}
		c.w.mu.Lock()
		c.w.Delivered[c.node.Id] = append(c.w.Delivered[c.node.Id], d)
		c.w.mu.Unlock()
	}
	// The batch goes through the engine's own in-process adapter (what the connect
	// handler does with a request as well), not through a loop of the harness.
	ec := rpc.NewOperatorEmbeddedClient(rpc.NewOperatorEmbeddedClientParams{Operator: t.Op, SenderID: c.sender, Host: c.node.Host, ID: c.node.Id})
	for {
		err := ec.HandleEventBatch(ctx, b)
		if err == nil {
			return nil
		}
		// rpc.HTTPClient retries a 503 (connect's Unavailable: the operator is still
		// loading, which it says at the first event of a batch) until the caller
		// gives up or the peer is gone
		if connect.CodeOf(err) != connect.CodeUnavailable || !t.alive.Load() || !c.senderAlive() || ctx.Err() != nil {
			return err
		}
		time.Sleep(100 * time.Microsecond)
	}
}
func (c *opClient) Deploy(ctx context.Context, r *workerpb.DeployOperatorRequest) (err error) {
	if c.stale() {
		return fmt.Errorf("stale job")
	}
	c.w.gate("deploy-op", c.sender, c.node.Id)
	t := c.target()
	if t == nil {
		return fmt.Errorf("operator %s unreachable", c.node.Id)
	}
	if t.depOp.Swap(true) && c.w.AvoidRedeploy != nil && c.w.AvoidRedeploy() {
		c.w.restartInstead(t)
		return fmt.Errorf("operator %s is restarting", c.node.Id)
	}
	c.w.mu.Lock()
	c.w.Deploys++
	c.w.Assembly = nil
	for _, o := range r.Operators {
		c.w.Assembly = append(c.w.Assembly, o.Id)
	}
	c.w.mu.Unlock()
	t.gen.Store(c.w.gen.Load())
	defer c.w.handlerPanic(t, "DeployOperator", &err)
	return t.Op.HandleDeploy(ctx, r, nopSink{})
}
func (c *opClient) UpdateRetainedCheckpoints(ctx context.Context, ids []uint64) (err error) {
	t := c.target()
	if t == nil || c.stale() {
		return fmt.Errorf("operator %s unreachable", c.node.Id)
	}
	defer c.w.handlerPanic(t, "UpdateRetainedCheckpoints", &err)
	return t.Op.HandleRemoveCheckpoints(ctx, &workerpb.UpdateRetainedCheckpointsRequest{CheckpointIds: ids})
}
func (c *opClient) NeedsTable(ctx context.Context, uri string) (needs bool, err error) {
	t := c.target()
	if t == nil {
		return false, fmt.Errorf("operator %s unreachable", c.node.Id)
	}
	defer c.w.handlerPanic(t, "NeedsTable", &err)
	return t.Op.HandleNeedsTable(uri), nil
}

type nopSink struct{}

func (nopSink) Write([]byte) error { return nil }

type srClient struct {
	w     *World
	node  *jobpb.NodeIdentity
	epoch int64
}

func (c *srClient) ID() string   { return c.node.Id }
func (c *srClient) Host() string { return c.node.Host }
func (c *srClient) target() *Worker {
	if c.epoch != c.w.jobEpoch.Load() {
		return nil // the calling job process has been replaced
	}
	c.w.mu.Lock()
	defer c.w.mu.Unlock()
	x := c.w.byNode[c.node.Id]
	if x == nil || !x.alive.Load() {
		return nil
	}
	return x
}
func (c *srClient) Deploy(ctx context.Context, r *workerpb.DeploySourceRunnerRequest) (err error) {
	c.w.gate("deploy-sr", "job", c.node.Id)
	t := c.target()
	if t == nil {
		return fmt.Errorf("source runner %s unreachable", c.node.Id)
	}
	if t.depSR.Swap(true) && c.w.AvoidRedeploy != nil && c.w.AvoidRedeploy() {
		c.w.restartInstead(t)
		return fmt.Errorf("source runner %s is restarting", c.node.Id)
	}
	defer c.w.handlerPanic(t, "DeploySourceRunner", &err)
	return t.SR.HandleDeploy(ctx, r)
}
func (c *srClient) AssignSplits(ctx context.Context, s []*workerpb.SourceSplit) (err error) {
	c.w.gate("assign", "job", c.node.Id)
	t := c.target()
	if t == nil {
		return fmt.Errorf("source runner %s unreachable", c.node.Id)
	}
	defer c.w.handlerPanic(t, "AssignSplits", &err)
	return t.SR.HandleAssignSplits(s)
}
func (c *srClient) StartCheckpoint(ctx context.Context, id uint64) (err error) {
	c.w.gate("start-ckpt", "job", c.node.Id)
	c.w.mu.Lock()
	c.w.StartCkpts = append(c.w.StartCkpts, id)
	c.w.mu.Unlock()
	t := c.target()
	if t == nil {
		return fmt.Errorf("source runner %s unreachable", c.node.Id)
	}
	defer c.w.handlerPanic(t, "StartCheckpoint", &err)
	t.SR.HandleStartCheckpoint(ctx, id)
	return nil
}

// ---------------------------------------------------------------- workers

// StartWorker starts a new worker process (operator + source runner) and
// registers it with the job.
func (w *World) StartWorker() *Worker {
	w.mu.Lock()
	w.nameSeq++
	name := fmt.Sprintf("%sw%d", w.NamePrefix, w.nameSeq)
	w.mu.Unlock()
	x := &Worker{Name: name}
	x.alive.Store(true)
	bp := batching.EventBatcherParams{MaxSize: max(1, w.Cfg.Batch), MaxDelay: time.Millisecond}
	ctx, cancel := context.WithCancel(context.Background())
	x.Op = operator.NewOperator(operator.NewOperatorParams{ID: "op-" + name, Host: name, Job: jobClient{w, x}, UserHandler: workerHandler{w.H, x}, EventBatching: bp,
		Clock: clocks.NewFrozenClock(),
		NeighborOperatorFactory: func(sender string, n *jobpb.NodeIdentity) proto.Operator {
			return &opClient{w: w, sender: sender, node: n}
		}})
	x.SR = sourcerunner.New(sourcerunner.NewParams{Host: name, UserHandler: w.H, Job: jobClient{w, x}, Clock: clocks.NewFrozenClock(), EventBatching: bp,
		OperatorFactory: func(sender string, n *jobpb.NodeIdentity) proto.Operator {
			return &opClient{w: w, sender: sender, node: n}
		},
		SourceReaderFactory: func(*jobconfigpb.Source) connectors.SourceReader {
			return w.source().NewSourceReader(connectors.SourceReaderHooks{})
		}})
	x.SR.ID = "sr-" + name
	w.mu.Lock()
	w.workers[name] = x
	w.byNode["op-"+name] = x
	w.byNode["sr-"+name] = x
	w.mu.Unlock()
	// workers.Worker runs both parts in one errgroup: when either stops (the
	// source runner stops itself on a delivery error), the process exits.
	exit := func(part string, err error) {
		if !x.alive.Load() || !x.exiting.CompareAndSwap(false, true) {
			return // killed by the harness, or the other part got here first
		}
		// a graceful exit: both parts stop and deregister while the process still talks to the job
		x.Op.Stop()
		x.SR.Stop()
		cancel()
		time.Sleep(100 * time.Microsecond)
		x.alive.Store(false)
		w.mu.Lock()
		delete(w.workers, name)
		w.dead = append(w.dead, x)
		w.mu.Unlock()
		select {
		case w.Exited <- fmt.Sprintf("%s (%s: %v)", name, part, err):
		default:
		}
	}
	go func() { err := x.Op.Start(ctx); exit("operator", err) }()
	go func() { err := x.SR.Start(ctx); exit("source runner", err) }()
	x.stop = func() {
		// (a process killed before its Start got going has nothing to halt yet)
		func() { defer func() { recover() }(); x.Op.Halt() }()
		func() { defer func() { recover() }(); x.SR.Halt() }()
		cancel()
	}
	return x
}

// handlerPanic models util/httpu.Server: a panic in an RPC handler shuts the
// worker's server down, the process exits and the caller sees a failed call.
func (w *World) handlerPanic(t *Worker, call string, err *error) {
	r := recover()
	if r == nil {
		return
	}
	w.mu.Lock()
	w.HandlerPanics = append(w.HandlerPanics, fmt.Sprintf("%s on %s: %v", call, t.Name, r))
	w.mu.Unlock()
	w.Kill(t.Name)
	select {
	case w.Exited <- fmt.Sprintf("%s (handler %s panicked: %v)", t.Name, call, r):
	default:
	}
	if err != nil {
		*err = fmt.Errorf("%s unreachable (handler panicked)", t.Name)
	}
}

// WatermarkTick makes every source runner's watermark ticker fire once.
func (w *World) WatermarkTick() {
	w.mu.Lock()
	chs := append([]chan time.Time(nil), w.wmTickers...)
	w.mu.Unlock()
	for _, ch := range chs {
		select {
		case ch <- time.Now():
		default:
		}
	}
}

// QuiesceDBs waits until no database of this world has background work left
// (a dead process does nothing any more: before its files are wiped or its
// objects collected, whatever its flush and compaction goroutines were doing
// must have come to an end).
func (w *World) QuiesceDBs() {
	// A killed operator may still be finishing the event it was working on,
	// which can rotate a memtable and start another flush and compaction: wait
	// until a whole pause passes without any database of this world moving.
	for round := 0; round < 40; round++ {
		before := w.dbActivity.Load()
		w.mu.Lock()
		var dbs []*dkv.DB
		for d := range w.dbs {
			if db, ok := d.(*dkv.DB); ok {
				dbs = append(dbs, db)
			}
		}
		w.mu.Unlock()
		for _, db := range dbs {
			hx.WaitTasks(db.WaitOnTasks)
		}
		time.Sleep(400 * time.Microsecond)
		if round > 0 && w.dbActivity.Load() == before {
			return
		}
	}
}

// Kill stops a worker abruptly: no deregistration, its in-flight calls fail.
func (w *World) Kill(name string) {
	w.mu.Lock()
	x := w.workers[name]
	delete(w.workers, name)
	if x != nil {
		w.dead = append(w.dead, x)
	}
	w.mu.Unlock()
	if x == nil {
		return
	}
	x.alive.Store(false)
	x.stop()
}

// restartInstead: the worker process is replaced rather than deployed a second
// time in place (exclusion of the open finding about in-place redeploys).
func (w *World) restartInstead(x *Worker) {
	w.Kill(x.Name)
	select {
	case w.Exited <- x.Name + " (asked to deploy a second time)":
	default:
	}
}

// Live returns the names of the live workers, sorted.
func (w *World) Live() []string {
	w.mu.Lock()
	defer w.mu.Unlock()
	var out []string
	for n := range w.workers {
		out = append(out, n)
	}
	sort.Strings(out)
	return out
}

// Heartbeat re-registers every live worker with the job (the 3 s poller).
func (w *World) Heartbeat() {
	for _, n := range w.Live() {
		w.mu.Lock()
		x := w.workers[n]
		w.mu.Unlock()
		if x == nil || !w.jobAlive.Load() {
			continue
		}
		w.Job.HandleRegisterOperator(&jobpb.NodeIdentity{Id: "op-" + n, Host: n})
		w.Job.HandleRegisterSourceRunner(&jobpb.NodeIdentity{Id: "sr-" + n, Host: n})
	}
}

// PassTime lets the heartbeat deadline pass for whoever is dead, in
// heartbeat-sized steps so that the live ones stay registered.
func (w *World) PassTime() {
	for i := 0; i < 3; i++ {
		w.Clock.Advance(2 * time.Second)
		for _, c := range w.oldClocks {
			c.Advance(2 * time.Second)
		}
		w.Heartbeat()
	}
}

// Tick fires the job's checkpoint timer (no-op while the job is not running).
func (w *World) Tick() {
	// The real ticker only exists while the job is Running (it is stopped when the
	// assembly is lost); a FrozenClock ticker cannot be stopped, so do not tick then.
	if !w.Log.JobRunning() {
		return
	}
	defer func() { recover() }() // no ticker registered yet
	w.Clock.TickEvery("checkpointing")
}

// Snapshots returns the ids of the job snapshot files present, ascending.
func (w *World) Snapshots() []uint64 {
	var out []uint64
	for p, err := range w.Loc.List() {
		if err != nil || !strings.HasSuffix(p, ".snapshot") {
			continue
		}
		data, _ := w.Loc.Read(p)
		var jc snapshotpb.JobCheckpoint
		if unmarshal(data, &jc) == nil {
			out = append(out, jc.Id)
		}
	}
	sort.Slice(out, func(i, j int) bool { return out[i] < out[j] })
	return out
}

// WaitFor polls cond (bounded).
func WaitFor(d time.Duration, cond func() bool) bool {
	deadline := time.Now().Add(d)
	for !cond() {
		if time.Now().After(deadline) {
			return false
		}
		time.Sleep(100 * time.Microsecond)
	}
	return true
}
