package cluster

import (
	"context"
	"encoding/binary"
	"encoding/json"
	"fmt"
	"os"
	"path/filepath"
	"runtime"
	"sort"
	"strings"
	"sync"
	"sync/atomic"
	"time"

	gproto "google.golang.org/protobuf/proto"
	"pgregory.net/rapid"
	"reduction.dev/reduction/dkv"
	"reduction.dev/reduction/dkv/recovery"
	"reduction.dev/reduction/dkv/storage"
	"reduction.dev/reduction/partitioning"
	"reduction.dev/reduction/proto/snapshotpb"
	"verifharness/hx"
	"verifharness/refimpl"
)

func unmarshal(b []byte, m gproto.Message) error { return gproto.Unmarshal(b, m) }

// Fault is one action of the fault plan, taken when the n-th inter-node call happens.
type Fault struct {
	At      int
	Kind    string // tick | kill | killjob | savepoint | tickkill (a tick, and a kill Who calls behind it) | stalltick (the operators take no events for 20-40 ms, a checkpoint is started, they go on) | slowassign (the AssignSplits calls of the next deployment take 3 ms each) | pubkill (a tick whose completed checkpoint is published late: a worker is killed first, the publication happens while the job deploys the recovery)
	Retries int    // (bookkeeping of a tick that found a checkpoint in progress and comes back)
	Who     int
}

// Program is a cluster-level case.
type Program struct {
	Cfg          Config
	NKeys        int
	Splits       [][]int // per split: key index of each record
	Fan          [][]int // per split and record (may be shorter): v > 0 = KeyEvent yields a second keyed event for key (v-1) mod NKeys, v > 20 = and a third for key v mod NKeys
	Faults       []Fault
	Standby      int   // extra workers started up front
	LatencyUs    []int // KeyEventBatch latency per call (cyclic); exercises out-of-order completions
	FinalN       int   // worker count of the read-back deployment (0 = same)
	SlowArtifact bool  // savepoint runs: a periodic checkpoint completes while the artifact is assembled
	LatePub      bool  // savepoint runs: the goroutine that publishes the savepoint's checkpoint gets going late, after the next periodic checkpoint completed
	Chain        int   // savepoint runs: the restored job is saved, wiped and restored once more: 1 = as soon as it has been deployed (while it processes the rest of the input), 2 = after it processed the rest
}

// Stats of a run.
type Stats struct {
	Kills, KillsAfterCkpt, KillsDuringCkpt, JobRestarts, Ticks, Checkpoints int
	NonIdentityAcks, Recoveries                                             int
	Invocations                                                             int
	Savepoints, SelfExits, FinalRetries                                     int
	BarriersBothSides, MaxKeyCalls, ResumedSplits                           int
	ExitReasons                                                             []string
	CkptsBeforeEnd                                                          int // snapshots in storage when all input had been processed
	WMTicks                                                                 int // watermark ticks of the source runners (harness-driven)
	HandlerPanics                                                           []string
	PubDuringRecovery                                                       int // checkpoints whose publication was held until the job was deploying the recovery from a failure
	SlowAssigns                                                             int // AssignSplits calls that took 3 ms
	StallTicks                                                              int // checkpoints started while the operators took no events and the runners' queues were full
}

func buildData(p Program) (map[string][]Rec, map[string]int) {
	data := map[string][]Rec{}
	totals := map[string]int{}
	for si, ks := range p.Splits {
		split := fmt.Sprintf("s%d", si)
		ord := map[int]int{}
		for i, k := range ks {
			key := keyName(k % max(1, p.NKeys))
			r := Rec{Split: split, Idx: i, Key: key, Ord: ord[k%max(1, p.NKeys)]}
			ord[k%max(1, p.NKeys)]++
			totals[key+"/"+split]++
			if si < len(p.Fan) && i < len(p.Fan[si]) && p.Fan[si][i] > 0 {
				v := p.Fan[si][i]
				extra := []int{(v - 1) % max(1, p.NKeys)}
				if v > 20 {
					extra = append(extra, v%max(1, p.NKeys))
				}
				for _, fk := range extra {
					r.Fan = append(r.Fan, Fan{Key: keyName(fk), Ord: ord[fk]})
					ord[fk]++
					totals[keyName(fk)+"/"+split]++
				}
			}
			data[split] = append(data[split], r)
		}
		if len(ks) == 0 {
			data[split] = nil
		}
	}
	return data, totals
}

// keyName: the subject keys of a cluster case. Key 0 is the empty byte string
// (a legal key: it hashes to a key group like any other), key 1 a NUL byte (the
// records travel as JSON, so the keys stay valid UTF-8).
func keyName(i int) string {
	switch i {
	case 0:
		return ""
	case 1:
		return "\x00"
	}
	return fmt.Sprintf("k%d", i)
}

const stallAfter = 15 * time.Second

// Run executes a cluster Program with the exactly-once oracle.
func Run(p Program, c *hx.Case) (st Stats, err error) {
	data, totals := buildData(p)
	w, err := NewWorld(p.Cfg, data, "", nil)
	if err != nil {
		return st, err
	}
	defer w.Close()
	defer func() {
		if err != nil {
			if _, inc := err.(*hx.Inconclusive); !inc {
				for _, l := range w.Log.Tail(70) {
					c.Logf("%s", l)
				}
			}
		}
	}()
	if len(p.LatencyUs) > 0 {
		n := 0
		w.H.KeyLatency = func(int) {
			w.H.mu.Lock()
			d := p.LatencyUs[n%len(p.LatencyUs)]
			n++
			w.H.mu.Unlock()
			if d > 0 {
				time.Sleep(time.Duration(d) * time.Microsecond)
			}
		}
	}
	w.AvoidRedeploy = func() bool {
		if c.Known("C01-survivor-redeployed-in-place") {
			c.Label("avoided:C01-survivor-redeployed-in-place")
			return true
		}
		return false
	}
	actions := make(chan Fault, 64)
	pending := append([]Fault(nil), p.Faults...)
	sort.SliceStable(pending, func(i, j int) bool { return pending[i].At < pending[j].At })
	idx := 0
	var onDeploy func() // runs once, in the first deploy call that follows (the job waits in that call)
	slowAssign := 0     // AssignSplits calls that are slow (the network to the source runners is)
	w.Gate = func(n int, kind, from, to string) {
		if kind == "assign" {
			w.mu.Lock()
			slow := slowAssign > 0
			if slow {
				slowAssign--
			}
			w.mu.Unlock()
			if slow {
				// The call takes 3 ms. Should the job consider itself running
				// meanwhile, its checkpoint timer may fire.
				for i := 0; i < 30; i++ {
					if w.Log.JobRunning() {
						w.Tick()
					}
					time.Sleep(100 * time.Microsecond)
				}
				w.mu.Lock()
				st.SlowAssigns++
				w.mu.Unlock()
			}
		}
		if kind == "deploy-op" {
			w.mu.Lock()
			f := onDeploy
			onDeploy = nil
			w.mu.Unlock()
			if f != nil {
				f()
			}
		}
		w.mu.Lock()
		for idx < len(pending) && pending[idx].At <= n {
			select {
			case actions <- pending[idx]:
			default:
			}
			idx++
		}
		w.mu.Unlock()
	}
	for i := 0; i < p.Cfg.Workers+p.Standby; i++ {
		w.StartWorker()
	}
	w.Heartbeat()
	done := func() bool {
		// the incarnation of the assembly that is current has been started (its
		// progress model was reset to the checkpoint it resumed from) and has
		// applied every record
		if w.startedGen.Load() != w.gen.Load() {
			return false
		}
		w.H.mu.Lock()
		defer w.H.mu.Unlock()
		for k, n := range totals {
			if w.H.Applied[k] != n {
				return false
			}
		}
		return true
	}
	check := func() error {
		if v := w.H.Violations(); len(v) > 0 {
			return hx.Errf("%s", strings.Join(v, "; "))
		}
		select {
		case e := <-w.ErrC:
			return hx.Errf("job error: %v", e)
		default:
		}
		return nil
	}
	lastProgress := time.Now()
	lastTime := time.Now()
	lastInv := -1
	publishedBefore := 0
settle:
	for !done() {
		select {
		case f := <-actions:
			switch f.Kind {
			case "tick", "tickkill", "pubkill":
				// The job's timer retries a tick that finds a checkpoint in progress one
				// second later; with frozen time that retry is the harness's: the tick
				// comes back a few calls later (a bounded number of times).
				snaps := w.Snapshots()
				w.mu.Lock()
				inProgress := len(w.StartCkpts) > 0 && (len(snaps) == 0 || w.StartCkpts[len(w.StartCkpts)-1] > snaps[len(snaps)-1])
				if inProgress && f.Retries < 10 {
					pending = append(pending, Fault{At: int(w.gateN.Load()) + 3, Kind: f.Kind, Who: f.Who, Retries: f.Retries + 1})
					rest := pending[idx:]
					sort.SliceStable(rest, func(i, j int) bool { return rest[i].At < rest[j].At })
					w.mu.Unlock()
					break
				}
				if f.Kind == "tickkill" {
					// ... and a worker dies Who calls behind the start of this checkpoint
					pending = append(pending, Fault{At: int(w.gateN.Load()) + 1 + f.Who, Kind: "kill", Who: f.Who})
					rest := pending[idx:]
					sort.SliceStable(rest, func(i, j int) bool { return rest[i].At < rest[j].At })
				}
				w.mu.Unlock()
				if f.Kind == "pubkill" {
					// The checkpoint completes, but the goroutine that publishes it gets
					// going late: first the assembly is lost, and the publication happens
					// while the job deploys the recovery.
					held, release := make(chan uint64, 1), make(chan struct{})
					var first atomic.Bool
					w.mu.Lock()
					w.PubHook = func(id uint64) {
						if first.CompareAndSwap(false, true) {
							held <- id
							<-release
						}
					}
					w.mu.Unlock()
					w.Tick()
					st.Ticks++
					select {
					case id := <-held:
						w.mu.Lock()
						w.PubHook = nil
						onDeploy = func() {
							close(release)
							WaitFor(2*time.Second, func() bool {
								sn := w.Snapshots()
								return len(sn) > 0 && sn[len(sn)-1] >= id
							})
							time.Sleep(300 * time.Microsecond)
						}
						w.mu.Unlock()
						st.PubDuringRecovery++
						select {
						case actions <- Fault{Kind: "kill", Who: f.Who}:
						default:
						}
						// if no deployment follows (the input ran out first), the publication goes ahead anyway
						go func() {
							time.Sleep(3 * time.Second)
							w.mu.Lock()
							f := onDeploy
							onDeploy = nil
							w.mu.Unlock()
							if f != nil {
								f()
							}
						}()
					case <-time.After(400 * time.Millisecond):
						// the checkpoint did not complete (or none was started): nothing is held
						w.mu.Lock()
						w.PubHook = nil
						w.mu.Unlock()
						first.Store(true)
						close(release)
					}
					break
				}
				w.Tick()
				st.Ticks++
			case "stalltick":
				// The operators take no events for a while, so the source runners run
				// ahead of them as far as their queues allow; a checkpoint is started in
				// that state; then the operators go on.
				w.HoldEvents(true)
				time.Sleep(time.Duration(20+10*f.Who) * time.Millisecond)
				w.Tick()
				st.Ticks++
				st.StallTicks++
				time.Sleep(3 * time.Millisecond)
				w.HoldEvents(false)
				if f.Who >= 0 {
					// ... and a worker is lost as soon as that checkpoint has been published,
					// so that the recovery starts from it
					before := uint64(0)
					if sn := w.Snapshots(); len(sn) > 0 {
						before = sn[len(sn)-1]
					}
					go func() {
						if WaitFor(3*time.Second, func() bool {
							sn := w.Snapshots()
							return len(sn) > 0 && sn[len(sn)-1] > before
						}) {
							time.Sleep(200 * time.Microsecond)
							select {
							case actions <- Fault{Kind: "kill", Who: f.Who}:
							default:
							}
						}
					}()
				}
			case "slowassign":
				w.mu.Lock()
				slowAssign = max(1, p.Cfg.Workers)
				w.mu.Unlock()
			case "wmtick":
				w.WatermarkTick()
				st.WMTicks++
			case "kill":
				live := w.Live()
				if len(live) == 0 {
					break
				}
				snaps := w.Snapshots()
				w.mu.Lock()
				pendingCkpt := len(w.StartCkpts) > 0 && (len(snaps) == 0 || w.StartCkpts[len(w.StartCkpts)-1] > snaps[len(snaps)-1])
				w.mu.Unlock()
				w.Kill(live[f.Who%len(live)])
				st.Kills++
				if c.Known("C01-survivor-redeployed-in-place") {
					// Open known finding, excluded by construction: a surviving worker would be
					// deployed a second time in the same process. Fail the whole assembly instead.
					for _, n := range w.Live() {
						w.Kill(n)
					}
					c.Label("avoided:C01-survivor-redeployed-in-place")
					w.PassTime()
					for i := 0; i < p.Cfg.Workers+p.Standby-1; i++ {
						w.StartWorker()
					}
				}
				if len(snaps) > 0 {
					st.KillsAfterCkpt++
				}
				if pendingCkpt {
					st.KillsDuringCkpt++
				}
				w.PassTime()
				w.StartWorker()
				w.Heartbeat()
				st.Recoveries++
			case "killjob":
				if c.Known("C01-survivor-redeployed-in-place") {
					// (same exclusion) the new job would deploy the running workers again
					for _, n := range w.Live() {
						w.Kill(n)
					}
					c.Label("avoided:C01-survivor-redeployed-in-place")
				}
				if err := w.RestartJob(); err != nil {
					return st, err
				}
				st.JobRestarts++
				w.PassTime() // the replaced job process is gone; time passes before the new one is up
				if len(w.Live()) == 0 {
					for i := 0; i < p.Cfg.Workers+p.Standby; i++ {
						w.StartWorker()
					}
				}
				w.Heartbeat()
			}
		case who := <-w.Exited:
			// the supervisor restarts a worker process that exited on its own
			st.ExitReasons = append(st.ExitReasons, who)
			c.Logf("worker exited on its own: %s", who)
			st.SelfExits++
			w.StartWorker()
			w.Heartbeat()
		default:
			time.Sleep(150 * time.Microsecond)
		}
		if err := check(); err != nil {
			return st, err
		}
		w.H.mu.Lock()
		inv := w.H.Invocations
		w.H.mu.Unlock()
		if inv != lastInv {
			lastInv, lastProgress = inv, time.Now()
		} else if time.Since(lastProgress) > stallAfter {
			w.mu.Lock()
			c.Logf("deploys=%d startckpts=%v assigned=%v snapshots=%v", w.Deploys, w.StartCkpts, w.Assigned, nil)
			w.mu.Unlock()
			if os.Getenv("VERIF_STACKS") != "" {
				c.Logf("goroutines:\n%s", hx.Goroutines("reduction.dev/reduction"))
			}
			return st, hx.Errf("no handler invocation for %v although %d workers are live and registered, every call is delivered and records remain (applied %v of %v): the pipeline is stuck", stallAfter, len(w.Live()), w.H.Applied, totals)
		}
		if time.Since(lastProgress) > 30*time.Millisecond && time.Since(lastTime) > 30*time.Millisecond {
			// nothing happens: let (frozen) time pass, so that the job notices nodes
			// that stopped heartbeating, while the live ones keep re-registering
			w.PassTime()
			lastTime = time.Now()
		}
	}
	// final checkpoint
	genAtDone := w.gen.Load()
	publishedBefore = len(w.Snapshots())
	if st.FinalRetries == 0 {
		st.CkptsBeforeEnd = publishedBefore
	}
	var lastID uint64
	if s := w.Snapshots(); len(s) > 0 {
		lastID = s[len(s)-1]
	}
	// only a checkpoint STARTED after all input was processed is final: one that
	// was already in flight may cut earlier
	w.mu.Lock()
	startedBefore := map[uint64]bool{}
	for _, id := range w.StartCkpts {
		startedBefore[id] = true
	}
	w.mu.Unlock()
	ok := false
	for attempt := 0; attempt < 300 && !ok; attempt++ {
		w.Tick()
		ok = WaitFor(100*time.Millisecond, func() bool {
			s := w.Snapshots()
			return len(s) > 0 && s[len(s)-1] > lastID && !startedBefore[s[len(s)-1]]
		})
		if err := check(); err != nil {
			return st, err
		}
		select {
		case who := <-w.Exited:
			st.ExitReasons = append(st.ExitReasons, who)
			c.Logf("worker exited on its own: %s", who)
			st.SelfExits++
			w.StartWorker()
			w.Heartbeat()
		default:
		}
		if attempt%20 == 19 {
			w.PassTime()
		}
	}
	_ = publishedBefore
	if !ok {
		return st, hx.Errf("all input was processed and the workers are live, but no checkpoint completes any more (last published %d, started %v)", lastID, w.StartCkpts)
	}
	if err := check(); err != nil {
		return st, err
	}
	if w.gen.Load() != genAtDone || !done() {
		// the assembly was replaced while the final checkpoint was taken (workers may
		// lose their registration on their own under load): the new incarnation
		// first has to process the input again
		st.FinalRetries++
		if st.FinalRetries > 20 {
			return st, &hx.Inconclusive{Why: "the assembly kept being replaced while the final checkpoint was taken"}
		}
		lastProgress = time.Now()
		goto settle
	}
	// read the final checkpoint back: per (key, split) the count must be the total
	got, final, err := readFinalStateStable(w, p.Cfg.Groups)
	if err != nil {
		return st, err
	}
	for k, n := range totals {
		if got[k] != n {
			return st, hx.Errf("final keyed state: %s counts %d records, the input has %d (checkpoint %d)", k, got[k], n, final)
		}
	}
	for k, n := range got {
		if totals[k] != n {
			return st, hx.Errf("final keyed state: %s counts %d records, the input has %d", k, n, totals[k])
		}
	}
	if err := checkPositions(w); err != nil {
		return st, err
	}
	resumed, err := checkAssignments(w)
	if err != nil {
		return st, err
	}
	st.ResumedSplits = resumed
	if st.Kills == 0 && st.JobRestarts == 0 && st.SelfExits == 0 {
		n, err := CheckDelivery(w, data, p.Cfg.Groups)
		if err != nil {
			return st, err
		}
		st.BarriersBothSides = n
	}
	w.mu.Lock()
	st.MaxKeyCalls = w.MaxKeyCalls
	st.HandlerPanics = append([]string(nil), w.HandlerPanics...)
	w.mu.Unlock()
	for _, hp := range st.HandlerPanics {
		c.Label("handler-panic:" + strings.SplitN(hp, " ", 2)[0])
	}
	st.Checkpoints = len(w.Snapshots())
	w.H.mu.Lock()
	st.Invocations = w.H.Invocations
	w.H.mu.Unlock()
	// acknowledgement order: did any checkpoint record its operators out of range order?
	w.mu.Lock()
	byCk := map[uint64][]int32{}
	for _, a := range w.OpAcks {
		byCk[a.CheckpointId] = append(byCk[a.CheckpointId], a.KeyGroupRange.Start)
	}
	w.mu.Unlock()
	for _, starts := range byCk {
		if !sort.SliceIsSorted(starts, func(i, j int) bool { return starts[i] < starts[j] }) {
			st.NonIdentityAcks++
		}
	}
	return st, nil
}

// CheckDelivery: C04 over the recorded operator streams of a failure-free run.
// Every record is delivered exactly once, to the operator whose range holds
// its key's group; records of one split and key arrive in split order; each
// runner's watermarks are monotone, stay below the largest timestamp it ever
// forwarded and never fall behind a record it delivered earlier in the same stream.
func CheckDelivery(w *World, data map[string][]Rec, groups int) (barriersWithBothSides int, err error) {
	w.mu.Lock()
	defer w.mu.Unlock()
	type rk struct {
		split string
		idx   int
		sub   int
	}
	seen := map[rk]string{}
	n := len(w.Assembly)
	if n == 0 {
		return 0, hx.Errf("no deployment was recorded")
	}
	for opID, stream := range w.Delivered {
		opIdx := -1
		for i, id := range w.Assembly {
			if id == opID {
				opIdx = i
			}
		}
		last := map[string]int{}       // split/key -> last Idx
		maxTS := map[string]int64{}    // runner -> largest record timestamp delivered so far in this stream
		lastWM := map[string]int64{}   // runner -> last watermark
		recsBefore := map[string]int{} // runner -> records seen so far
		for i, d := range stream {
			switch d.Kind {
			case "rec":
				k := rk{d.Rec.Split, d.Rec.Idx, d.Rec.Sub}
				if prev, dup := seen[k]; dup {
					return 0, hx.Errf("keyed event %d of record %d of split %s was delivered twice (to %s and to %s)", d.Rec.Sub, d.Rec.Idx, d.Rec.Split, prev, opID)
				}
				seen[k] = opID
				g := refimpl.KeyGroup([]byte(d.Rec.Key), groups)
				want := refimpl.RangeOf(g, groups, n)
				ranges := partitioning.NewKeySpace(groups, n).KeyGroupRanges()
				for ri, r := range ranges {
					if g >= r.Start && g < r.End {
						want = ri
					}
				}
				if opIdx != want {
					return 0, hx.Errf("record %d of split %s (key %q, group %d) was delivered to %s (range %d), the group belongs to range %d", d.Rec.Idx, d.Rec.Split, d.Rec.Key, g, opID, opIdx, want)
				}
				sk := d.Rec.Split + "/" + d.Rec.Key
				if p, ok := last[sk]; ok && d.Rec.at() < p {
					return 0, hx.Errf("records of split %s with key %q reached %s out of order: %d.%d after %d.%d", d.Rec.Split, d.Rec.Key, opID, d.Rec.Idx, d.Rec.Sub, p/8, p%8)
				}
				last[sk] = d.Rec.at()
				maxTS[d.From] = max(maxTS[d.From], int64(d.Rec.Idx+1)*int64(time.Second))
				recsBefore[d.From]++
			case "wm":
				if d.WM < lastWM[d.From] && lastWM[d.From] != 0 {
					return 0, hx.Errf("watermarks of %s went back from %d to %d in the stream to %s", d.From, lastWM[d.From], d.WM, opID)
				}
				if recsBefore[d.From] > 0 && d.WM < maxTS[d.From]-1 {
					return 0, hx.Errf("watermark %d of %s overtook nothing but lags: it is behind record timestamp %d delivered earlier in the same stream to %s (event time does not follow)", d.WM, d.From, maxTS[d.From], opID)
				}
				lastWM[d.From] = d.WM
			case "barrier":
				before, after := 0, 0
				for j, e := range stream {
					if e.From == d.From && e.Kind == "rec" {
						if j < i {
							before++
						} else {
							after++
						}
					}
				}
				if before > 0 && after > 0 {
					barriersWithBothSides++
				}
			}
		}
	}
	// global: no watermark of a runner reaches the largest timestamp it forwarded anywhere
	globalMax := map[string]int64{}
	for _, stream := range w.Delivered {
		for _, d := range stream {
			if d.Kind == "rec" {
				globalMax[d.From] = max(globalMax[d.From], int64(d.Rec.Idx+1)*int64(time.Second))
			}
		}
	}
	for opID, stream := range w.Delivered {
		for _, d := range stream {
			if d.Kind == "wm" && globalMax[d.From] > 0 && d.WM >= globalMax[d.From] {
				return 0, hx.Errf("watermark %d of %s (to %s) reached the largest event timestamp %d it forwarded", d.WM, d.From, opID, globalMax[d.From])
			}
		}
	}
	// Every watermark is the largest timestamp its runner had seen when it was
	// stamped, minus 1ns (C11). A runner broadcasts its watermarks, so its k-th
	// watermark is the k-th in every operator's stream and carries one value; the
	// record it was derived from was forwarded before it, i.e. precedes the k-th
	// watermark in the stream of the operator it went to.
	type wmKey struct {
		runner string
		k      int
	}
	wmVal := map[wmKey]int64{}
	type recPos struct{ wmsBefore int }
	recsAt := map[string]map[int64][]recPos{} // runner -> timestamp -> where its records sit
	for opID, stream := range w.Delivered {
		count := map[string]int{}
		for _, d := range stream {
			switch d.Kind {
			case "wm":
				count[d.From]++
				key := wmKey{d.From, count[d.From]}
				if v, ok := wmVal[key]; ok && v != d.WM {
					return 0, hx.Errf("watermark number %d of %s reached %s as %d and another operator as %d", key.k, d.From, opID, d.WM, v)
				}
				wmVal[key] = d.WM
			case "rec":
				ts := int64(d.Rec.Idx+1) * int64(time.Second)
				if recsAt[d.From] == nil {
					recsAt[d.From] = map[int64][]recPos{}
				}
				recsAt[d.From][ts] = append(recsAt[d.From][ts], recPos{count[d.From]})
			}
		}
	}
	for key, v := range wmVal {
		if v < 0 {
			continue // nothing seen yet
		}
		ok := false
		for _, rp := range recsAt[key.runner][v+1] {
			if rp.wmsBefore < key.k {
				ok = true
			}
		}
		if !ok {
			return 0, hx.Errf("watermark number %d of %s is %d, but no record with timestamp %d was forwarded by that runner before it: the watermark reached (or passed) what had been forwarded", key.k, key.runner, v, v+1)
		}
	}
	total := 0
	for split, recs := range data {
		for _, r := range recs {
			for sub := 0; sub <= len(r.Fan); sub++ {
				total++
				if _, ok := seen[rk{split, r.Idx, sub}]; !ok {
					return 0, hx.Errf("keyed event %d of record %d of split %s was never delivered to any operator", sub, r.Idx, split)
				}
			}
		}
	}
	if len(seen) != total {
		return 0, hx.Errf("%d distinct keyed events were delivered, the input yields %d", len(seen), total)
	}
	return barriersWithBothSides, nil
}

// checkAssignments: within one splitter start every split is taken over by at
// most one reader, at the position the restored checkpoint holds; and that
// position is what the source runners reported for that checkpoint.
func checkAssignments(w *World) (resumed int, err error) {
	w.mu.Lock()
	defer w.mu.Unlock()
	reported := map[uint64]map[string]int{}
	for _, ack := range w.SRAcks {
		for _, st := range ack.SplitStates {
			var ss splitState
			if json.Unmarshal(st, &ss) == nil {
				if reported[ack.CheckpointId] == nil {
					reported[ack.CheckpointId] = map[string]int{}
				}
				reported[ack.CheckpointId][ss.Split] = ss.Pos
			}
		}
	}
	for i, r := range w.Rounds {
		for split, applied := range r.Applied {
			if len(applied) > 1 {
				return 0, hx.Errf("deployment %d: split %s was taken over by %d readers (at positions %v): every split must have exactly one reader", i+1, split, len(applied), applied)
			}
			if applied[0] != r.Pos[split] {
				return 0, hx.Errf("deployment %d: split %s resumes at %d, the restored checkpoint %d holds position %d", i+1, split, applied[0], r.CkptID, r.Pos[split])
			}
			if r.CkptID != 0 {
				if rep, ok := reported[r.CkptID][split]; ok && rep != applied[0] {
					return 0, hx.Errf("deployment %d: split %s resumes at %d, its runner reported position %d for checkpoint %d", i+1, split, applied[0], rep, r.CkptID)
				}
				if applied[0] > 0 {
					resumed++
				}
			}
		}
	}
	if len(w.RestoredDups) > 0 {
		return 0, hx.Errf("a restored checkpoint lists a split more than once: %v", w.RestoredDups)
	}
	return resumed, nil
}

// checkPositions: C16's generic clause over the recorded streams. For every
// source-runner acknowledgement of checkpoint N, no record at or after the
// reported position of a split precedes barrier N in any operator's stream from
// that runner, and none before the position follows it.
func checkPositions(w *World) error {
	w.mu.Lock()
	defer w.mu.Unlock()
	for _, ack := range w.SRAcks {
		pos := map[string]int{}
		for _, st := range ack.SplitStates {
			var ss splitState
			if json.Unmarshal(st, &ss) == nil {
				pos[ss.Split] = ss.Pos
			}
		}
		for opID, stream := range w.Delivered {
			seenBarrier := false
			hasBarrier := false
			for _, d := range stream {
				if d.From == ack.SourceRunnerId && d.Kind == "barrier" && d.ID == ack.CheckpointId {
					hasBarrier = true
				}
			}
			if !hasBarrier {
				continue
			}
			// consider only this runner's deliveries of the incarnation that sent barrier N:
			// walk backwards from the barrier to the previous barrier of a smaller id
			bi := -1
			for i, d := range stream {
				if d.From == ack.SourceRunnerId && d.Kind == "barrier" && d.ID == ack.CheckpointId {
					bi = i
				}
			}
			for i, d := range stream {
				if d.From != ack.SourceRunnerId {
					continue
				}
				if i == bi {
					seenBarrier = true
					continue
				}
				if d.Kind != "rec" {
					continue
				}
				p, ok := pos[d.Rec.Split]
				if !ok {
					continue
				}
				if !seenBarrier && i < bi && d.Rec.Idx >= p && laterIncarnation(stream, i, bi, ack.SourceRunnerId) {
					return hx.Errf("source runner %s reported position %d of split %s for checkpoint %d, but record %d of that split reached operator %s ahead of barrier %d", ack.SourceRunnerId, p, d.Rec.Split, ack.CheckpointId, d.Rec.Idx, opID, ack.CheckpointId)
				}
				if seenBarrier && d.Rec.Idx < p && sameIncarnation(stream, bi, i, ack.SourceRunnerId) {
					return hx.Errf("source runner %s reported position %d of split %s for checkpoint %d, but record %d of that split reached operator %s after barrier %d", ack.SourceRunnerId, p, d.Rec.Split, ack.CheckpointId, d.Rec.Idx, opID, ack.CheckpointId)
				}
			}
		}
	}
	return nil
}

// A runner id belongs to one worker process, and a process is deployed once
// per assembly; records re-read after a recovery come from a later deployment
// of a (possibly) same-named runner only if the worker survived. Deliveries of
// one runner to one operator between two points belong to the same deployment
// when no position went backwards in between.
func sameIncarnation(stream []Delivered, from, to int, runner string) bool {
	last := map[string]int{}
	for i := from; i <= to && i < len(stream); i++ {
		d := stream[i]
		if d.From != runner || d.Kind != "rec" {
			continue
		}
		if prev, ok := last[d.Rec.Split]; ok && d.Rec.at() <= prev {
			return false
		}
		last[d.Rec.Split] = d.Rec.at()
	}
	return true
}

func laterIncarnation(stream []Delivered, from, to int, runner string) bool {
	return sameIncarnation(stream, from, to, runner)
}

// GenProgram draws a cluster program.
func GenProgram(rt *rapid.T, faults []string, maxFaults int) Program {
	p := Program{
		Cfg: Config{
			Workers:   rapid.IntRange(1, 3).Draw(rt, "workers"),
			Groups:    rapid.SampledFrom([]int{1, 2, 3, 8, 8, 16, 32}).Draw(rt, "groups"),
			Batch:     rapid.IntRange(1, 5).Draw(rt, "batch"),
			ReadBatch: rapid.IntRange(1, 4).Draw(rt, "readbatch"),
			MemTable:  rapid.SampledFrom([]int{0, 256, 1024}).Draw(rt, "memtable"),
			RankSeed:  rapid.Uint32().Draw(rt, "rank"),
		},
		NKeys:   rapid.IntRange(3, 12).Draw(rt, "nkeys"),
		Standby: rapid.SampledFrom([]int{0, 0, 1}).Draw(rt, "standby"),
	}
	ns := rapid.IntRange(1, 4).Draw(rt, "splits")
	p.Cfg.Splits = ns
	total := 0
	for i := 0; i < ns; i++ {
		n := rapid.IntRange(5, 80).Draw(rt, "len")
		total += n
		p.Splits = append(p.Splits, rapid.SliceOfN(rapid.IntRange(0, 11), n, n).Draw(rt, "keys"))
	}
	if rapid.IntRange(0, 2).Draw(rt, "fanout") == 0 {
		// KeyEvent may key one record into several events with keys of their own
		for i := 0; i < ns; i++ {
			p.Fan = append(p.Fan, rapid.SliceOfN(rapid.SampledFrom([]int{0, 0, 0, 1, 2, 3, 5, 8, 12, 25, 30}), 0, len(p.Splits[i])).Draw(rt, "fan"))
		}
	}
	nf := rapid.IntRange(0, maxFaults).Draw(rt, "nfaults")
	// the number of inter-node calls of a run is roughly the number of records
	// (batches, acknowledgements, barriers); spread the fault points over it
	span := max(8, total/max(1, p.Cfg.Batch)+8*p.Cfg.Workers)
	for i := 0; i < nf; i++ {
		p.Faults = append(p.Faults, Fault{
			At:   rapid.IntRange(1, span).Draw(rt, "at"),
			Kind: rapid.SampledFrom(faults).Draw(rt, "kind"),
			Who:  rapid.IntRange(0, 3).Draw(rt, "who"),
		})
	}
	if nf >= 2 && rapid.Bool().Draw(rt, "tickthenkill") {
		// the interesting shape: a completed (or pending) checkpoint, then a failure
		a := rapid.IntRange(2*p.Cfg.Workers+2, max(2*p.Cfg.Workers+3, span/2)).Draw(rt, "tickat")
		p.Faults[0] = Fault{At: a, Kind: "tick"}
		p.Faults[1] = Fault{At: a + rapid.IntRange(1, max(2, span/2)).Draw(rt, "gap"), Kind: faults[max(0, len(faults)-2)], Who: rapid.IntRange(0, 3).Draw(rt, "who2")}
	}
	if nf >= 3 && len(faults) >= 2 && rapid.IntRange(0, 2).Draw(rt, "ticktickkill") == 0 {
		// a checkpoint that completes, then a second one with the failure right behind
		// its start: some operators have written their part of it, the job has not
		// published it
		a := rapid.IntRange(2*p.Cfg.Workers+2, max(2*p.Cfg.Workers+3, span/3)).Draw(rt, "tick1at")
		b := a + rapid.IntRange(3, max(4, span/3)).Draw(rt, "gap1")
		p.Faults[0] = Fault{At: a, Kind: "tick"}
		if faults[max(0, len(faults)-2)] == "kill" {
			p.Faults[1] = Fault{At: b, Kind: "tickkill", Who: rapid.IntRange(0, 6+4*p.Cfg.Workers).Draw(rt, "gap2")}
			p.Faults = append(p.Faults[:2], p.Faults[3:]...)
		} else {
			p.Faults[1] = Fault{At: b, Kind: "tick"}
		}
	}
	if nf >= 1 && len(faults) >= 2 && faults[max(0, len(faults)-2)] == "kill" && rapid.IntRange(0, 3).Draw(rt, "pubkill") == 0 {
		// a checkpoint that completes but is published late: the failure comes
		// first, the publication happens while the job deploys the recovery
		a := rapid.IntRange(2*p.Cfg.Workers+2, max(2*p.Cfg.Workers+3, span/2)).Draw(rt, "pubkillat")
		p.Faults[len(p.Faults)-1] = Fault{At: a, Kind: "pubkill", Who: rapid.IntRange(0, 3).Draw(rt, "who3")}
	}
	if len(faults) >= 2 && faults[max(0, len(faults)-2)] == "kill" && rapid.IntRange(0, 39).Draw(rt, "backlog") == 0 {
		// A large backlog: batches of 32..64 events as the worker server uses them,
		// one long split, operators that stall while a checkpoint is started (the
		// runner's queues are full then), and a failure afterwards.
		p.Cfg.Batch = rapid.SampledFrom([]int{32, 48, 64}).Draw(rt, "bigbatch")
		p.Cfg.ReadBatch = 4
		long := rapid.IntRange(1400, 2200).Draw(rt, "longsplit")
		p.Splits[0] = make([]int, long)
		for i := range p.Splits[0] {
			p.Splits[0][i] = i % 7
		}
		p.Fan = nil
		p.LatencyUs = nil
		p.Faults = []Fault{{At: rapid.IntRange(2*p.Cfg.Workers+2, 2*p.Cfg.Workers+6).Draw(rt, "stallat"), Kind: "stalltick", Who: rapid.IntRange(0, 2).Draw(rt, "stallms")},
			{At: rapid.IntRange(30, 80).Draw(rt, "killat"), Kind: "kill", Who: rapid.IntRange(0, 3).Draw(rt, "who6")}}
		return p
	}
	if nf >= 2 && len(faults) >= 2 && faults[max(0, len(faults)-2)] == "kill" && rapid.IntRange(0, 4).Draw(rt, "slowassign") == 0 {
		// a recovery whose split assignment is slow, a checkpoint as early as the
		// job allows it, and a second failure that recovers from that checkpoint
		a := rapid.IntRange(2*p.Cfg.Workers+2, max(2*p.Cfg.Workers+3, span/3)).Draw(rt, "slowat")
		p.Faults[0] = Fault{At: a, Kind: "slowassign"}
		p.Faults[1] = Fault{At: a + 1, Kind: "kill", Who: rapid.IntRange(0, 3).Draw(rt, "who4")}
		p.Faults = append(p.Faults, Fault{At: a + rapid.IntRange(6, max(7, span/2)).Draw(rt, "gap4"), Kind: "tick"},
			Fault{At: a + rapid.IntRange(12, max(13, span)).Draw(rt, "gap5"), Kind: "kill", Who: rapid.IntRange(0, 3).Draw(rt, "who5")})
	}
	// watermark ticks of the source runners, anywhere among the calls (they are not
	// faults and do not count against the fault budget)
	for i, nw := 0, rapid.IntRange(0, 8).Draw(rt, "wmticks"); i < nw; i++ {
		p.Faults = append(p.Faults, Fault{At: rapid.IntRange(1, span).Draw(rt, "wmat"), Kind: "wmtick"})
	}
	p.LatencyUs = rapid.SliceOfN(rapid.SampledFrom([]int{0, 0, 0, 50, 300}), 0, 6).Draw(rt, "latency")
	return p
}

// SPStats of a savepoint run.
type SPStats struct {
	Folded, DifferentWorkers, FlushSwaps, FilesWiped, RemainingRecords int
	Chained                                                            int // savepoints taken of a job that was itself restored from a savepoint
	LatePubs                                                           int // publications held back at their start until a newer checkpoint could have been published
}

// RunSavepoint: run the job, request a savepoint at a drawn moment (possibly
// while a periodic checkpoint is pending), wait for the artifact, stop
// everything, DELETE the working storage and the job's checkpoint directory,
// start a new job from the savepoint URI (same or different worker count) and
// let it process the rest of the input under the exactly-once oracle.
func RunSavepoint(p Program, c *hx.Case) (st SPStats, err error) {
	data, totals := buildData(p)
	w, err := NewWorld(p.Cfg, data, "", nil)
	if err != nil {
		return st, err
	}
	closed := false
	defer func() {
		if !closed {
			w.Close()
		}
	}()
	logTail := func(w *World) {
		for _, l := range w.Log.Tail(50) {
			c.Logf("%s", l)
		}
	}
	w.AvoidRedeploy = func() bool { return c.Known("C01-survivor-redeployed-in-place") }
	actions := make(chan Fault, 64)
	pending := append([]Fault(nil), p.Faults...)
	sort.SliceStable(pending, func(i, j int) bool { return pending[i].At < pending[j].At })
	idx := 0
	w.Gate = func(n int, kind, from, to string) {
		w.mu.Lock()
		for idx < len(pending) && pending[idx].At <= n {
			select {
			case actions <- pending[idx]:
			default:
			}
			idx++
		}
		w.mu.Unlock()
	}
	flushSwaps := 0
	prevPoint := w.pointHook
	w.pointHook = func(name string) {
		if name == "dkv.flush.swapped" {
			w.mu.Lock()
			flushSwaps++
			w.mu.Unlock()
		}
		if prevPoint != nil {
			prevPoint(name)
		}
	}
	for i := 0; i < p.Cfg.Workers; i++ {
		w.StartWorker()
	}
	w.Heartbeat()
	check := func(w *World) error {
		if v := w.H.Violations(); len(v) > 0 {
			return hx.Errf("%s", strings.Join(v, "; "))
		}
		select {
		case e := <-w.ErrC:
			return hx.Errf("job error: %v", e)
		default:
		}
		return nil
	}
	var spID, heldID uint64
	spRequested := false
	defer w.HoldAcks(false)
	deadline := time.Now().Add(stallAfter)
	// phase 1: until the savepoint artifact exists
	for {
		if time.Now().After(deadline) {
			logTail(w)
			if !spRequested {
				return st, &hx.Inconclusive{Why: "the savepoint could not be requested (job never running)"}
			}
			return st, hx.Errf("savepoint %d was requested but its artifact did not appear within %v", spID, stallAfter)
		}
		select {
		case f := <-actions:
			switch f.Kind {
			case "tick":
				w.Tick()
			case "wmtick":
				w.WatermarkTick()
			case "foldtick":
				// start a periodic checkpoint and keep it pending (its
				// acknowledgements wait at the transport) until the savepoint is requested
				w.mu.Lock()
				before := len(w.StartCkpts)
				w.mu.Unlock()
				w.HoldAcks(true)
				w.Tick()
				w.mu.Lock()
				if len(w.StartCkpts) > before {
					heldID = w.StartCkpts[len(w.StartCkpts)-1]
				} else {
					w.HoldAcks(false)
				}
				w.mu.Unlock()
			case "savepoint":
				if spRequested {
					break
				}
				w.mu.Lock()
				started := append([]uint64(nil), w.StartCkpts...)
				w.mu.Unlock()
				pendingID := heldID
				if p.SlowArtifact {
					// The artifact is assembled slowly: while its first operator
					// checkpoints file is being read, a further periodic checkpoint
					// completes at the operators.
					var once sync.Once
					w.Loc.mu.Lock()
					w.Loc.ReadHook = func(path string) {
						if !strings.HasSuffix(path, "/checkpoints") {
							return
						}
						once.Do(func() {
							w.mu.Lock()
							acks := len(w.OpAcks)
							w.mu.Unlock()
							w.Tick()
							WaitFor(300*time.Millisecond, func() bool {
								w.mu.Lock()
								defer w.mu.Unlock()
								return len(w.OpAcks) >= acks+p.Cfg.Workers
							})
						})
					}
					w.Loc.mu.Unlock()
				}
				if p.LatePub {
					// The first publication that begins from now on (the savepoint's, unless
					// an earlier checkpoint was still in flight) is slow to get going:
					// meanwhile another periodic checkpoint starts and completes.
					var first atomic.Bool
					w.mu.Lock()
					w.PubHook = func(id uint64) {
						if !first.CompareAndSwap(false, true) {
							return // (later publications are not held: they may overtake)
						}
						func() {
							w.Tick()
							if WaitFor(300*time.Millisecond, func() bool {
								s := w.Snapshots()
								return len(s) > 0 && s[len(s)-1] > id
							}) {
								// (a newer checkpoint overtook this one: its retention update reaches the operators)
								time.Sleep(3 * time.Millisecond)
							}
							w.mu.Lock()
							st.LatePubs++
							w.mu.Unlock()
						}()
					}
					w.mu.Unlock()
				}
				id, serr := w.Job.HandleCreateSavepoint(context.Background())
				w.HoldAcks(false)
				heldID = 0
				if serr != nil {
					// not running yet: try again at the next call
					w.mu.Lock() // (the gate reads pending and advances idx under this lock)
					pending = append(pending, Fault{At: f.At + 3, Kind: "savepoint"})
					rest := pending[idx:]
					sort.SliceStable(rest, func(i, j int) bool { return rest[i].At < rest[j].At })
					w.mu.Unlock()
					break
				}
				spID, spRequested = id, true
				w.mu.Lock()
				after := append([]uint64(nil), w.StartCkpts...)
				w.mu.Unlock()
				if pendingID != 0 {
					st.Folded++
					if id != pendingID {
						logTail(w)
						return st, hx.Errf("a savepoint was requested while checkpoint %d was in progress; it returned id %d instead of folding into the pending checkpoint", pendingID, id)
					}
					if len(after) != len(started) {
						logTail(w)
						return st, hx.Errf("a savepoint requested while checkpoint %d was in progress started another checkpoint: %v", pendingID, after[len(started):])
					}
				}
			}
		case <-w.Exited:
			w.StartWorker()
			w.Heartbeat()
		default:
			time.Sleep(150 * time.Microsecond)
		}
		if err := check(w); err != nil {
			logTail(w)
			return st, err
		}
		w.mu.Lock()
		ranOut := !spRequested && idx >= len(pending)
		if ranOut {
			// the plan ran out before the job was running: request it now
			pending = append(pending, Fault{At: int(w.gateN.Load()) + 1, Kind: "savepoint"})
		}
		w.mu.Unlock()
		if ranOut {
			w.gate("nudge", "harness", "harness")
		}
		if spRequested {
			if uri, uerr := w.Job.HandleGetSavepointURI(context.Background(), spID); uerr == nil && uri != "" {
				// the job keeps running undisturbed: let it go on a little
				time.Sleep(300 * time.Microsecond)
				if err := check(w); err != nil {
					logTail(w)
					return st, err
				}
				w.mu.Lock()
				st.FlushSwaps = flushSwaps
				w.mu.Unlock()
				// stop everything
				for _, n := range w.Live() {
					w.Kill(n)
				}
				fs := w.FS
				w.Close()
				closed = true
				// Dead processes run no cleanups. Tables that were already obsolete
				// before the stop are cleaned up now (their cleanups delete by name), not
				// after the savepoint has copied files of the same names back into place.
				w.QuiesceDBs() // background flushes/compactions of the dead databases finish
				for i := 0; i < 3; i++ {
					runtime.GC()
					time.Sleep(200 * time.Microsecond)
				}
				// wipe working storage and the job's checkpoints
				loc := NewMemLoc(fs, "/job")
				st.FilesWiped = loc.RemoveTree("/work") + loc.RemoveTree("/job/checkpoints")
				// the first job's processes are dead: none of their objects may run a
				// cleanup (they delete files) while the second job uses the storage
				st2, err2 := restoreFromSavepoint(p, c, fs, uri, data, totals, st)
				runtime.KeepAlive(w)
				return st2, err2
			}
		}
	}
}

func restoreFromSavepoint(p Program, c *hx.Case, fs *storage.MemoryFilesystem, uri string, data map[string][]Rec, totals map[string]int, st SPStats) (SPStats, error) {
	return restoreFromSavepointDepth(p, c, fs, uri, data, totals, st, 0)
}

func restoreFromSavepointDepth(p Program, c *hx.Case, fs *storage.MemoryFilesystem, uri string, data map[string][]Rec, totals map[string]int, st SPStats, depth int) (SPStats, error) {
	cfg := p.Cfg
	if p.FinalN > 0 {
		cfg.Workers = p.FinalN
	}
	if cfg.Workers != p.Cfg.Workers {
		st.DifferentWorkers++
	}
	// The artifact as it is when the job is started from it: it has to stay that
	// way whatever the job does afterwards (a savepoint is there to be used again).
	artLoc := NewMemLoc(fs, "/job")
	artDir := filepath.Dir(strings.TrimPrefix(uri, "memory://")) + "/"
	artifact := map[string]string{}
	for _, f := range artLoc.Files() {
		if strings.HasPrefix(f, artDir) {
			b, _ := artLoc.Read(f)
			artifact[f] = string(b)
		}
	}
	artifactIntact := func() error {
		for f, want := range artifact {
			b, rerr := artLoc.Read(f)
			if rerr != nil {
				return hx.Errf("file %s of the savepoint the job was started from is gone after the job went on to take checkpoints of its own (%v): the savepoint cannot be used again", f, rerr)
			}
			if string(b) != want {
				return hx.Errf("file %s of the savepoint the job was started from was changed by the job that was started from it", f)
			}
		}
		return nil
	}
	w, err := NewWorld(cfg, data, uri, fs)
	if err != nil {
		return st, hx.Errf("starting a job from savepoint %s after all working storage was deleted: %v", uri, err)
	}
	defer w.Close()
	w.AvoidRedeploy = func() bool { return c.Known("C01-survivor-redeployed-in-place") }
	// New processes: the engine gives every operator process a fresh random id,
	// so no operator of this job writes into a directory of the job before it
	// (an id reused on the same storage would let the new operator's table
	// numbering, which only looks at the tables it restored itself, overwrite
	// tables its neighbour restored from that directory).
	w.NamePrefix = fmt.Sprintf("r%d", depth+1)
	for i := 0; i < cfg.Workers; i++ {
		w.StartWorker()
	}
	w.Heartbeat()
	fail := func(err error) (SPStats, error) {
		for _, l := range w.Log.Tail(50) {
			c.Logf("%s", l)
		}
		return st, err
	}
	// wait for the deployment to have assigned every split
	if !WaitFor(stallAfter, func() bool {
		w.mu.Lock()
		defer w.mu.Unlock()
		if len(w.Rounds) == 0 {
			return false
		}
		r := w.Rounds[len(w.Rounds)-1]
		return len(r.Applied) == len(data) || len(w.H.violations) > 0
	}) && !WaitFor(stallAfter, func() bool {
		// (time has to pass for a job that keeps deploying to a node that is gone)
		select {
		case <-w.Exited:
			w.StartWorker()
			w.Heartbeat()
		default:
		}
		w.PassTime()
		time.Sleep(2 * time.Millisecond)
		w.mu.Lock()
		defer w.mu.Unlock()
		return len(w.Rounds) > 0 && len(w.Rounds[len(w.Rounds)-1].Applied) == len(data)
	}) {
		return fail(hx.Errf("the job started from the savepoint never assigned its splits"))
	}
	w.mu.Lock()
	round := w.Rounds[len(w.Rounds)-1]
	remaining := 0
	last := map[string]Rec{}
	for split, recs := range data {
		pos := round.Pos[split]
		if pos < len(recs) {
			remaining += len(recs) - pos
			last[split] = recs[len(recs)-1]
		}
	}
	w.mu.Unlock()
	st.RemainingRecords = remaining
	lastPass := time.Now()
	supervise := func() {
		select {
		case <-w.Exited:
			w.StartWorker()
			w.Heartbeat()
		default:
		}
		if time.Since(lastPass) > 30*time.Millisecond {
			w.PassTime() // frozen time passes, so the job notices nodes that are gone
			lastPass = time.Now()
		}
	}
	chain := func() (SPStats, error) {
		// a savepoint of the restored job (whose operators may hold tables inherited
		// from several operators of the first job), wiped and restored once more with
		// the same worker count
		var spID uint64
		requested := WaitFor(stallAfter, func() bool {
			supervise()
			id, serr := w.Job.HandleCreateSavepoint(context.Background())
			if serr != nil {
				time.Sleep(time.Millisecond)
				return false
			}
			spID = id
			return true
		})
		if !requested {
			return fail(&hx.Inconclusive{Why: "the second savepoint could not be requested"})
		}
		var uri2 string
		if !WaitFor(stallAfter, func() bool {
			supervise()
			u, uerr := w.Job.HandleGetSavepointURI(context.Background(), spID)
			if uerr == nil && u != "" {
				uri2 = u
				return true
			}
			time.Sleep(200 * time.Microsecond)
			return false
		}) {
			return fail(hx.Errf("savepoint %d of the restored job was requested but its artifact did not appear within %v", spID, stallAfter))
		}
		if v := w.H.Violations(); len(v) > 0 {
			return fail(hx.Errf("while the second savepoint was taken: %s", strings.Join(v, "; ")))
		}
		for _, n := range w.Live() {
			w.Kill(n)
		}
		w.Close()
		w.QuiesceDBs()
		for i := 0; i < 3; i++ {
			runtime.GC()
			time.Sleep(200 * time.Microsecond)
		}
		loc := NewMemLoc(fs, "/job")
		st.FilesWiped += loc.RemoveTree("/work") + loc.RemoveTree("/job/checkpoints")
		st.Chained++
		p2 := p
		p2.Cfg = cfg
		p2.FinalN = 0
		st3, err3 := restoreFromSavepointDepth(p2, c, fs, uri2, data, totals, st, depth+1)
		runtime.KeepAlive(w)
		return st3, err3
	}
	if p.Chain == 1 && depth == 0 {
		// the savepoint of the restored job is requested while it processes the rest of the input
		return chain()
	}
	ok := WaitFor(stallAfter, func() bool {
		if len(w.H.Violations()) > 0 {
			return true
		}
		supervise()
		w.H.mu.Lock()
		defer w.H.mu.Unlock()
		for split, r := range last {
			if w.H.Applied[r.Key+"/"+split] < r.Ord+1 {
				return false
			}
			for _, f := range r.Fan {
				if w.H.Applied[f.Key+"/"+split] < f.Ord+1 {
					return false
				}
			}
		}
		return true
	})
	if v := w.H.Violations(); len(v) > 0 {
		return fail(hx.Errf("after restoring from the savepoint: %s", strings.Join(v, "; ")))
	}
	if !ok {
		return fail(hx.Errf("the job restored from the savepoint did not process the remaining %d records within %v", remaining, stallAfter))
	}
	// final state through a checkpoint of the restored job
	var lastID uint64
	if s := w.Snapshots(); len(s) > 0 {
		lastID = s[len(s)-1]
	}
	published := false
	for attempt := 0; attempt < 300 && !published; attempt++ {
		w.Tick()
		published = WaitFor(100*time.Millisecond, func() bool {
			s := w.Snapshots()
			return len(s) > 0 && s[len(s)-1] > lastID
		})
		if attempt%20 == 19 {
			w.PassTime()
		}
	}
	if !published {
		return fail(hx.Errf("the job restored from the savepoint cannot complete a checkpoint"))
	}
	got, _, err := readFinalStateStable(w, p.Cfg.Groups)
	if err != nil {
		return fail(err)
	}
	for k, n := range totals {
		if got[k] != n {
			return fail(hx.Errf("after savepoint restore and the rest of the input: %s counts %d records, the input has %d", k, got[k], n))
		}
	}
	if len(artifact) == 0 {
		return fail(hx.Errf("no file of savepoint %s was found under %s", uri, artDir))
	}
	if err := artifactIntact(); err != nil {
		return fail(err)
	}
	if p.Chain != 2 || depth >= 1 {
		return st, nil
	}
	return chain()
}

// readFinalStateStable reads the newest job checkpoint back. A checkpoint that
// was still in flight may be published while the files are read; the job then
// has the operators drop the one being read (its files may go). So: wait until
// nothing is in flight, and read again if the newest checkpoint changed meanwhile.
func readFinalStateStable(w *World, groups int) (map[string]int, uint64, error) {
	last := func() uint64 {
		if s := w.Snapshots(); len(s) > 0 {
			return s[len(s)-1]
		}
		return 0
	}
	var got map[string]int
	var final uint64
	var err error
	for attempt := 0; attempt < 8; attempt++ {
		WaitFor(2*time.Second, func() bool {
			w.mu.Lock()
			var started uint64
			for _, id := range w.StartCkpts {
				started = max(started, id)
			}
			w.mu.Unlock()
			return started <= last()
		})
		time.Sleep(300 * time.Microsecond) // the retention update of the last publication reaches the operators
		before := last()
		got, final, err = readFinalState(w, groups)
		if last() == before && (err != nil || final == before) {
			return got, final, err
		}
	}
	return got, final, err
}

// readFinalState decodes the newest job checkpoint into per (key/split) counts.
func readFinalState(w *World, groups int) (got map[string]int, final uint64, err error) {
	defer func() {
		if r := recover(); r != nil {
			err = hx.Errf("reading checkpoint %d back: %v", final, r)
		}
	}()
	snaps := w.Snapshots()
	final = snaps[len(snaps)-1]
	var jc *snapshotpb.JobCheckpoint
	for path := range w.Loc.List() {
		if strings.HasSuffix(path, ".snapshot") {
			data, _ := w.Loc.Read(path)
			var x snapshotpb.JobCheckpoint
			if unmarshal(data, &x) == nil && x.Id == final {
				jc = gproto.Clone(&x).(*snapshotpb.JobCheckpoint)
			}
		}
	}
	got = map[string]int{}
	if jc == nil {
		return got, final, hx.Errf("checkpoint %d not found in storage", final)
	}
	for _, oc := range jc.OperatorCheckpoints {
		db := dkv.Open(dkv.DBOptions{FileSystem: w.FS}, []recovery.CheckpointHandle{{CheckpointID: oc.CheckpointId, URI: oc.DkvFileUri}})
		w.mu.Lock()
		w.dbs[db] = true
		w.mu.Unlock()
		var scanErr error
		for e := range db.ScanPrefix(nil, &scanErr) {
			k := e.Key()
			if len(k) < 8 || k[2] != 0x00 {
				continue
			}
			g := int(binary.BigEndian.Uint16(k[:2]))
			if g < int(oc.KeyGroupRange.Start) || g >= int(oc.KeyGroupRange.End) {
				continue // a foreign key physically left in a shared table
			}
			n := int(binary.BigEndian.Uint32(k[3:7]))
			subject := string(k[7 : 7+n])
			rest := k[7+n:]
			split := string(rest[1+int(rest[0]):])
			var v int
			json.Unmarshal(e.Value(), &v)
			if refimpl.KeyGroup([]byte(subject), groups) != g {
				return got, final, hx.Errf("final checkpoint: state of key %q is stored under group %d", subject, g)
			}
			got[subject+"/"+split] = v
		}
		if scanErr != nil {
			return got, final, hx.Errf("reading checkpoint %d of %s: %v", final, oc.OperatorId, scanErr)
		}
	}
	return got, final, nil
}
