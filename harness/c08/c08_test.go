// Package c08 checks C08: a DKV checkpoint restores to exactly the state at
// the Checkpoint call, at every crash point after the handle was returned.
package c08

import (
	"os"
	"testing"

	"pgregory.net/rapid"
	"verifharness/hx"
	"verifharness/lsm"
)

var kinds = []string{"put", "put", "put", "put", "put", "put", "del", "del", "get", "scan",
	"hold", "hold", "hold", "settle", "checkpoint", "checkpoint", "checkpoint", "await", "retain", "restore", "restore"}

func gen(rt *rapid.T) lsm.Program {
	p := lsm.Program{
		Cfg:         lsm.GenConfig(rt),
		Keys:        lsm.GenKeys(rt),
		Ops:         lsm.GenOps(rt, rapid.IntRange(5, 80).Draw(rt, "n"), kinds),
		CrashSample: rapid.SliceOfN(rapid.IntRange(0, 1000), 0, 3).Draw(rt, "crash"),
	}
	p.CrashAll = os.Getenv("VERIF_CRASH_ALL") == "1"
	return p
}

func exec(p lsm.Program, c *hx.Case) error {
	return lsm.Exec(p, c, lsm.Mode{Checkpoints: true})
}

func TestPropCheckpoint(t *testing.T) {
	hx.Run(t, hx.Spec{Prop: "C08", Persist: true, Rule: "5..80 operations: the C07 history plus Checkpoint(id) (model copied at the call), holds of flush/compaction/WAL-save/checkpoint-file-save so that checkpoints are taken with tasks in flight and with an earlier checkpoint's save pending, Retain(subset), and crash-restores; every retained handle is restored on the storage materialised as of later storage operations (all of them with VERIF_CRASH_ALL=1 = thorough tier, the last plus <=3 drawn ones otherwise) and must equal the model copy (Get of every key + full scan); restored databases are written to (6, 2 or no operations: an incarnation may be checkpointed while idle), checkpointed and restored again (chains to depth 4); non-trivial = >=1 restore and a checkpoint taken with a background task in flight, or a second checkpoint after such a one, or a chain of depth >=2"}, gen, exec)
}
