module verifharness

go 1.24

require (
	connectrpc.com/connect v1.18.1
	github.com/aws/aws-sdk-go-v2/service/kinesis v1.32.10
	google.golang.org/protobuf v1.36.3
	pgregory.net/rapid v1.3.0
	reduction.dev/reduction v0.0.0
	reduction.dev/reduction-protocol v0.0.5-0.20250502133230-e5852cf15cdc
)

require (
	github.com/VictoriaMetrics/metrics v1.35.1 // indirect
	github.com/aws/aws-sdk-go-v2 v1.32.8 // indirect
	github.com/aws/aws-sdk-go-v2/aws/protocol/eventstream v1.6.7 // indirect
	github.com/aws/aws-sdk-go-v2/config v1.28.10 // indirect
	github.com/aws/aws-sdk-go-v2/credentials v1.17.51 // indirect
	github.com/aws/aws-sdk-go-v2/feature/ec2/imds v1.16.23 // indirect
	github.com/aws/aws-sdk-go-v2/internal/configsources v1.3.27 // indirect
	github.com/aws/aws-sdk-go-v2/internal/endpoints/v2 v2.6.27 // indirect
	github.com/aws/aws-sdk-go-v2/internal/ini v1.8.1 // indirect
	github.com/aws/aws-sdk-go-v2/internal/v4a v1.3.27 // indirect
	github.com/aws/aws-sdk-go-v2/service/internal/accept-encoding v1.12.1 // indirect
	github.com/aws/aws-sdk-go-v2/service/internal/checksum v1.4.8 // indirect
	github.com/aws/aws-sdk-go-v2/service/internal/presigned-url v1.12.8 // indirect
	github.com/aws/aws-sdk-go-v2/service/internal/s3shared v1.18.8 // indirect
	github.com/aws/aws-sdk-go-v2/service/s3 v1.72.2 // indirect
	github.com/aws/aws-sdk-go-v2/service/sso v1.24.9 // indirect
	github.com/aws/aws-sdk-go-v2/service/ssooidc v1.28.8 // indirect
	github.com/aws/aws-sdk-go-v2/service/sts v1.33.6 // indirect
	github.com/aws/smithy-go v1.22.1 // indirect
	github.com/beorn7/perks v1.0.1 // indirect
	github.com/cespare/xxhash/v2 v2.3.0 // indirect
	github.com/davecgh/go-spew v1.1.1 // indirect
	github.com/google/btree v1.1.3 // indirect
	github.com/jmespath/go-jmespath v0.4.0 // indirect
	github.com/munnerz/goautoneg v0.0.0-20191010083416-a7dc8b61c822 // indirect
	github.com/pmezard/go-difflib v1.0.0 // indirect
	github.com/prometheus/client_golang v1.20.5 // indirect
	github.com/prometheus/client_model v0.6.1 // indirect
	github.com/prometheus/common v0.55.0 // indirect
	github.com/prometheus/procfs v0.15.1 // indirect
	github.com/segmentio/ksuid v1.0.4 // indirect
	github.com/stretchr/testify v1.10.0 // indirect
	github.com/valyala/fastrand v1.1.0 // indirect
	github.com/valyala/histogram v1.2.0 // indirect
	golang.org/x/sync v0.12.0 // indirect
	golang.org/x/sys v0.31.0 // indirect
	gopkg.in/yaml.v3 v3.0.1 // indirect
)

replace reduction.dev/reduction => /repo
