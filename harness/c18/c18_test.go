// Package c18 checks C18: compaction never changes what the database contains
// and keeps the level layout valid.
package c18

import (
	"bytes"
	"errors"
	"fmt"
	"iter"
	"slices"
	"sort"
	"sync"
	"testing"

	"pgregory.net/rapid"
	"reduction.dev/reduction/dkv/kv"
	"reduction.dev/reduction/dkv/sst"
	"reduction.dev/reduction/dkv/storage"
	"verifharness/hx"
)

type ent struct {
	K   []byte
	V   []byte
	Del bool
	Seq uint64
}

func (e *ent) Key() []byte    { return e.K }
func (e *ent) Value() []byte  { return e.V }
func (e *ent) IsDelete() bool { return e.Del }
func (e *ent) SeqNum() uint64 { return e.Seq }

type write struct {
	Key int
	Del bool
}
type op struct {
	Kind    string  // flush | compact | fixpoint
	Batch   []write // flush: one memtable worth of writes (later writes to a key win)
	Arrive  int     // compact: number of flushes that arrive between computing and applying the change set
	Batches [][]write
	// compact: a storage read fault while the step runs. Fault > 0 selects the
	// table (counted over the whole layout, level 0 first) whose reads fail after
	// After successful ones; the fault is gone when the step has returned.
	Fault, After int
}
type prog struct {
	Levels     int
	Trigger    int
	Amp        int
	SmallLevel int64
	Target     int
	NKeys      int
	Ops        []op
}

func genBatch(rt *rapid.T, nkeys int) []write {
	n := rapid.IntRange(1, 6).Draw(rt, "batch")
	b := make([]write, n)
	for i := range b {
		b[i] = write{Key: rapid.IntRange(0, nkeys-1).Draw(rt, "key"), Del: rapid.IntRange(0, 3).Draw(rt, "del") == 0}
	}
	return b
}

func gen(rt *rapid.T) prog {
	p := prog{
		Levels:     rapid.IntRange(2, 6).Draw(rt, "levels"),
		Trigger:    rapid.IntRange(1, 4).Draw(rt, "trigger"),
		Amp:        rapid.SampledFrom([]int{1, 25, 50, 100, 200, 1000, 100000}).Draw(rt, "amp"),
		SmallLevel: rapid.SampledFrom([]int64{1, 4200, 9000, 20000, 1 << 30}).Draw(rt, "small"),
		Target:     rapid.SampledFrom([]int{20, 40, 80, 200, 100000}).Draw(rt, "target"),
		NKeys:      rapid.IntRange(4, 16).Draw(rt, "nkeys"),
	}
	n := rapid.IntRange(2, 40).Draw(rt, "n")
	for i := 0; i < n; i++ {
		o := op{Kind: rapid.SampledFrom([]string{"flush", "flush", "flush", "compact", "compact", "fixpoint"}).Draw(rt, "kind")}
		switch o.Kind {
		case "flush":
			o.Batch = genBatch(rt, p.NKeys)
		case "compact":
			o.Arrive = rapid.IntRange(0, 2).Draw(rt, "arrive")
			if rapid.IntRange(0, 3).Draw(rt, "faulty") == 0 {
				o.Fault = rapid.IntRange(1, 12).Draw(rt, "fault")
				o.After = rapid.IntRange(0, 4).Draw(rt, "after")
			}
			for j := 0; j < o.Arrive; j++ {
				o.Batches = append(o.Batches, genBatch(rt, p.NKeys))
			}
		}
		p.Ops = append(p.Ops, o)
	}
	return p
}

// faultFS is the memory file system with one switchable read fault.
type faultFS struct {
	storage.FileSystem
	mu    sync.Mutex
	name  string // file whose reads fail ("" = none)
	after int    // successful reads left before the failure
	hits  int    // reads that failed
}

type faultFile struct {
	storage.File
	fs *faultFS
}

func (f *faultFS) New(path string) storage.File  { return &faultFile{f.FileSystem.New(path), f} }
func (f *faultFS) Open(path string) storage.File { return &faultFile{f.FileSystem.Open(path), f} }
func (f *faultFile) ReadAt(b []byte, off int64) (int, error) {
	f.fs.mu.Lock()
	if f.fs.name != "" && f.fs.name == f.Name() {
		if f.fs.after <= 0 {
			f.fs.hits++
			f.fs.mu.Unlock()
			return 0, errors.New("injected storage read fault")
		}
		f.fs.after--
	}
	f.fs.mu.Unlock()
	return f.File.ReadAt(b, off)
}

type world struct {
	p     prog
	keys  [][]byte
	tw    *sst.TableWriter
	ll    *sst.LevelList
	seq   uint64
	model map[string]*ent // latest version per key (may be a tombstone)
	ever  map[string]bool
}

func (w *world) flush(b []write) error {
	mem := map[string]*ent{}
	for _, wr := range b {
		w.seq++
		k := w.keys[wr.Key%len(w.keys)]
		e := &ent{K: k, Del: wr.Del, Seq: w.seq}
		if !wr.Del {
			e.V = []byte(fmt.Sprintf("v%d", w.seq))
		}
		mem[string(k)] = e
		w.model[string(k)] = e
		w.ever[string(k)] = true
	}
	var run []*ent
	for _, e := range mem {
		run = append(run, e)
	}
	sort.Slice(run, func(i, j int) bool { return bytes.Compare(run[i].K, run[j].K) < 0 })
	t, err := w.tw.Write(func(yield func(kv.Entry) bool) {
		for _, e := range run {
			if !yield(e) {
				return
			}
		}
	})
	if err != nil {
		return hx.Errf("writing a level-0 table: %v", err)
	}
	cs := &sst.ChangeSet{}
	cs.AddTables(0, t)
	w.ll = w.ll.NewWithChangeSet(cs) // exactly what the flush task does
	return nil
}

type version struct {
	level int
	seq   uint64
	del   bool
	val   []byte
}

// tablesOf returns the tables of a level in the level's own order.
func tablesOf(ll *sst.LevelList, level int) []*sst.Table {
	for l := range ll.DescendLevels(level, level+1) {
		return slices.Collect(l.AllTables())
	}
	return nil
}

func (w *world) check(step int, what string) error {
	ll := w.ll
	// 1. layout: levels >= 1 sorted by start key and non-overlapping
	for lv := 1; lv < w.p.Levels; lv++ {
		ts := tablesOf(ll, lv)
		for i, t := range ts {
			d := t.Document()
			if bytes.Compare([]byte(d.StartKey), []byte(d.EndKey)) > 0 {
				return hx.Errf("step %d %s: level %d table %d has start %q > end %q", step, what, lv, i, d.StartKey, d.EndKey)
			}
			if i > 0 {
				prev := ts[i-1].Document()
				if bytes.Compare([]byte(prev.EndKey), []byte(d.StartKey)) >= 0 {
					return hx.Errf("step %d %s: level %d is not sorted/non-overlapping: table %d ends at %q, table %d starts at %q", step, what, lv, i-1, prev.EndKey, i, d.StartKey)
				}
			}
		}
	}
	// 2. per key: versions in lookup order (L0 newest table first, then deeper)
	// must have strictly decreasing sequence numbers
	for _, k := range w.keys {
		var vs []version
		for lv := 0; lv < w.p.Levels; lv++ {
			ts := tablesOf(ll, lv)
			if lv == 0 {
				ts = slices.Clone(ts)
				slices.Reverse(ts)
			}
			for _, t := range ts {
				var scanErr error
				for e := range t.ScanPrefix(k, &scanErr) {
					if bytes.Equal(e.Key(), k) {
						vs = append(vs, version{lv, e.SeqNum(), e.IsDelete(), e.Value()})
					}
				}
				if scanErr != nil {
					return hx.Errf("step %d %s: scanning level %d: %v", step, what, lv, scanErr)
				}
			}
		}
		for i := 1; i < len(vs); i++ {
			if vs[i].seq >= vs[i-1].seq {
				return hx.Errf("step %d %s: key %q has sequence number %d at level %d above (before) sequence number %d at level %d: newer data ended up beneath older data", step, what, k, vs[i-1].seq, vs[i-1].level, vs[i].seq, vs[i].level)
			}
		}
		// 3. point lookup
		m := w.model[string(k)]
		got, err := ll.Get(k)
		switch {
		case err == kv.ErrNotFound:
			if m != nil && !m.Del {
				return hx.Errf("step %d %s: Get(%q) NotFound, latest version is put seq %d", step, what, k, m.Seq)
			}
		case err != nil:
			return hx.Errf("step %d %s: Get(%q): %v", step, what, k, err)
		default:
			if m == nil {
				return hx.Errf("step %d %s: Get(%q) returned seq %d for a key never written", step, what, k, got.SeqNum())
			}
			if got.SeqNum() != m.Seq || got.IsDelete() != m.Del || (!m.Del && !bytes.Equal(got.Value(), m.V)) {
				return hx.Errf("step %d %s: Get(%q) returned seq %d (delete=%v) but the latest version is seq %d (delete=%v): an overwritten or deleted value is visible", step, what, k, got.SeqNum(), got.IsDelete(), m.Seq, m.Del)
			}
		}
	}
	// 4. scans: all keys, and one per first byte
	prefixes := [][]byte{nil, []byte("a"), []byte("ab"), {0x00}, {0xff}}
	for _, pf := range prefixes {
		var want []*ent
		for _, k := range hx.SortedKeys(w.model) {
			if e := w.model[k]; !e.Del && bytes.HasPrefix(e.K, pf) {
				want = append(want, e)
			}
		}
		var scanErr error
		i := 0
		for e := range ll.ScanPrefix(pf, &scanErr) {
			if i >= len(want) || !bytes.Equal(e.Key(), want[i].K) {
				return hx.Errf("step %d %s: ScanPrefix(%q) item %d is %q (seq %d): not the next live key", step, what, pf, i, e.Key(), e.SeqNum())
			}
			if e.SeqNum() != want[i].Seq || !bytes.Equal(e.Value(), want[i].V) {
				return hx.Errf("step %d %s: ScanPrefix(%q) key %q has seq %d, latest is %d", step, what, pf, e.Key(), e.SeqNum(), want[i].Seq)
			}
			i++
		}
		if scanErr != nil {
			return hx.Errf("step %d %s: ScanPrefix(%q): %v", step, what, pf, scanErr)
		}
		if i != len(want) {
			return hx.Errf("step %d %s: ScanPrefix(%q) yielded %d keys, want %d", step, what, pf, i, len(want))
		}
	}
	return nil
}

var _ iter.Seq[int]

func exec(p prog, c *hx.Case) error {
	fs := &faultFS{FileSystem: storage.NewMemoryFilesystem()}
	w := &world{p: p, keys: hx.AdversarialKeys[:p.NKeys], tw: sst.NewTableWriter(fs, 0), ll: sst.NewEmptyLevelList(p.Levels),
		model: map[string]*ent{}, ever: map[string]bool{}}
	comp := &sst.Compactor{TableWriter: w.tw, L0RunNumCompactionTrigger: p.Trigger, MaxSizeAmplificationPercent: p.Amp,
		SmallestLevelSize: p.SmallLevel, LevelSizeMultiplier: 10, TargetTableSize: int64(p.Target)}
	steps, concurrent, multi, middle, failedSteps, faultSurvived := 0, 0, 0, 0, 0, 0
	note := func() {
		counts := w.ll.TableCounts()
		for lv, n := range counts {
			if lv >= 1 && n >= 2 {
				multi++
			}
			if lv >= 1 && lv < len(counts)-1 && n >= 1 {
				middle++
			}
		}
	}
	compactOnce := func(step int, o op) (bool, error) {
		before := w.ll
		faulted := ""
		fs.mu.Lock()
		fs.hits = 0
		fs.mu.Unlock()
		if o.Fault > 0 {
			var all []*sst.Table
			for lv := 0; lv < p.Levels; lv++ {
				all = append(all, tablesOf(before, lv)...)
			}
			if len(all) > 0 {
				faulted = all[(o.Fault-1)%len(all)].Name()
				fs.mu.Lock()
				fs.name, fs.after, fs.hits = faulted, o.After, 0
				fs.mu.Unlock()
			}
		}
		cs, err := func() (cs *sst.ChangeSet, err error) {
			defer func() {
				if r := recover(); r != nil && faulted != "" {
					err = fmt.Errorf("panic: %v", r) // a step that gives up on a read fault changes nothing
				} else if r != nil {
					panic(r)
				}
			}()
			return comp.Compact(before)
		}()
		fs.mu.Lock()
		hit := fs.hits > 0
		fs.name = ""
		fs.mu.Unlock()
		if err != nil && hit {
			// the step failed on the injected fault: nothing is applied, and the
			// layout must read exactly as before
			failedSteps++
			return true, w.check(step, "after a compaction step that failed on a storage read fault")
		}
		if hit {
			faultSurvived++
		}
		if err != nil {
			return false, hx.Errf("step %d: Compact: %v", step, err)
		}
		if cs == nil {
			return false, nil
		}
		for _, b := range o.Batches { // flushes that arrive while the compaction ran
			if err := w.flush(b); err != nil {
				return false, err
			}
			concurrent++
		}
		w.ll = w.ll.NewWithChangeSet(cs)
		steps++
		note()
		return true, w.check(step, fmt.Sprintf("after a compaction step (%d flushes arrived meanwhile)", len(o.Batches)))
	}
	for step, o := range p.Ops {
		switch o.Kind {
		case "flush":
			if err := w.flush(o.Batch); err != nil {
				return err
			}
			if err := w.check(step, "after a flush"); err != nil {
				return err
			}
		case "compact":
			if _, err := compactOnce(step, o); err != nil {
				return err
			}
		case "fixpoint":
			for i := 0; i < 50; i++ {
				did, err := compactOnce(step, op{})
				if err != nil {
					return err
				}
				if !did {
					break
				}
			}
		}
	}
	c.LabelIf(concurrent > 0, "concurrent-flush")
	c.LabelIf(failedSteps > 0, "compaction-step-failed-on-read-fault")
	c.LabelIf(faultSurvived > 0, "compaction-step-succeeded-despite-read-fault")
	c.LabelIf(multi > 0, "multi-table-level")
	c.LabelIf(middle > 0, "middle-level-populated")
	if steps >= 2 && multi > 0 {
		c.NonTrivial()
	}
	return nil
}

func TestPropCompaction(t *testing.T) {
	hx.Run(t, hx.Spec{Prop: "C18", Rule: "2..40 steps of: flush a batch of 1..6 puts/deletes over 4..16 keys as a level-0 table (as rotateMemtable does) | one real Compactor.Compact step whose change set is applied after 0..2 further flushes arrived, a quarter of them with a storage read fault in one table of the layout after 0..4 successful reads (a step that returns an error applies nothing; one that returns a change set is applied and checked like any other) | compact to a fixed point; levels 2..6, trigger 1..4, amplification 1..100000%, smallest-level size 1..1GiB, target table size 20..100000 B; after every step: levels>=1 sorted and non-overlapping, per key the sequence numbers strictly decrease in lookup order, Get of every key and five prefix scans equal the model; non-trivial = >=2 compaction steps and some level>=1 holding >=2 tables"}, gen, exec)
}
