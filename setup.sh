#!/bin/bash
# Build the offline protobuf front end and the two upstream code generators
# from the module cache. Idempotent.
set -euo pipefail
cd "$(dirname "$0")"
. ./env.sh
mkdir -p .bin .gen evidence replays
(cd tools/pbgen && go build -o ../../.bin/pbgen . )
(cd tools/pbgen && go build -o ../../.bin/protoc-gen-go google.golang.org/protobuf/cmd/protoc-gen-go)
(cd tools/pbgen && go build -o ../../.bin/protoc-gen-connect-go connectrpc.com/connect/cmd/protoc-gen-connect-go)
./.bin/pbgen "$VERIF_REPO" "$PWD/.gen" "$PWD/.bin" >/dev/null
echo "setup ok"
