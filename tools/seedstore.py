#!/usr/bin/env python3
"""Stores a confirmed seeded change under /verif/seeded/<name>/.
usage: seedstore.py <name> <property> <pkgdir> <run pattern> <needs> <caught-by json> <demo files...>"""
import json, os, shutil, subprocess, sys
name, prop, pkg, pat, needs, caught = sys.argv[1:7]
demos = sys.argv[7:]
src = "%s/%s/out" % (os.environ.get("SEEDBASE", "/tmp/seed"), name.split("-")[0])
dst = "/verif/seeded/%s" % name
os.makedirs(dst, exist_ok=True)
shutil.copy(os.path.join(src, "patch.diff"), dst)
for f in ["notes.md", "patch.orig.diff"] + demos:
    if os.path.exists(os.path.join(src, f)):
        shutil.copy(os.path.join(src, f), dst)
head = subprocess.check_output(["git", "-C", "/repo", "rev-parse", "--short", "HEAD"], text=True).strip()
meta = {
    "property": prop,
    "written_by": "independent sub-agent given only the property text and a scratch worktree",
    "applies_at": head,
    "files": subprocess.check_output("grep '^+++ b/' %s/patch.diff | cut -c7-" % dst, shell=True, text=True).split(),
    "needs_to_manifest": needs,
    "demonstration": {"files": demos, "place_in": pkg, "run": "go test -vet=off -count=1 -run '%s' ./%s/" % (pat, pkg)},
    "confirmed": "tools/seedverify.sh: patch applies at HEAD, go build ./..., pinned suite and workers/jobs/snapshots/partitioning tests pass with it; demonstration FAILS with it and passes without it",
    "checks_run": json.loads(caught),
}
json.dump(meta, open(os.path.join(dst, "meta.json"), "w"), indent=1)
print("stored", dst)
