#!/bin/bash
# Sensitivity trial: revert one fix commit (or apply a patch file) in a scratch
# worktree of /repo's HEAD and run the quick tier of the given properties
# against it. Usage: tools/sens.sh <commit|patch.diff> <PROP>...
set -u
what=$1; shift
name=$(basename "$what" | tr -c 'A-Za-z0-9' _)
wt=/root/scratch/sens_$name
git -C /repo worktree remove --force "$wt" >/dev/null 2>&1
git -C /repo worktree add -q --detach "$wt" HEAD || exit 2
if [ -f "$what" ]; then
  git -C "$wt" apply "$what" || { echo "patch does not apply"; exit 2; }
else
  git -C "$wt" revert --no-commit "$what" >/dev/null 2>&1 || { echo "revert failed"; exit 2; }
fi
for p in "$@"; do
  t0=$(date +%s)
  out=$(VERIF_REPO=$wt VERIF_REPLAY_DIR=/root/scratch/replays_$name /verif/check "$p" ${TIER:-quick} 2>&1)
  rc=$?
  n=$(echo "$out" | grep -c '^VIOLATION')
  echo "$name $p rc=$rc violations=$n secs=$(( $(date +%s) - t0 )) :: $(echo "$out" | grep -m1 'test=' | cut -c1-220)"
  if [ -n "${KEEP:-}" ]; then
    # keep the smallest replay as a corpus candidate
    f=$(ls -S /root/scratch/replays_$name/$p-*.json 2>/dev/null | tail -1)
    [ -n "$f" ] && mkdir -p "$KEEP" && cp "$f" "$KEEP/$p-$name.json"
  fi
done
git -C /repo worktree remove --force "$wt"
rm -rf /root/scratch/replays_$name /dev/shm/verif-evidence-root_scratch_sens_$name /verif/.gen-root_scratch_sens_$name /verif/.bin/*root_scratch_sens_$name*
