#!/usr/bin/env python3
import json,base64,sys
d=json.load(open(sys.argv[1])); p=d['program']
b=lambda x: base64.b64decode(x or '')
print({k:v for k,v in p.items() if k!='Ops'})
for i,o in enumerate(p['Ops']):
    k=o['Kind']; s=f"{i} {k}"
    if k=='event': s+=f" sender={o['Sender']} key#{o['Key']} muts={[(m['NS'],b(m['Key']),b(m['Val']),m['Del']) for m in (o['Muts'] or [])]} timers={o['Timers']}"
    if k=='wm': s+=f" sender={o['Sender']} wm={o['WM']}"
    if k=='rescale': s+=f" N={o['N']} perm={o['Perm']}"
    print(s)
print(d.get('msg','')[:600])
