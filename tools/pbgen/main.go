// pbgen: a minimal proto3 front-end that replaces protoc for the subset of the
// language used by reduction's .proto files, and drives protoc-gen-go and
// protoc-gen-connect-go (built from the module cache) to emit *.pb.go.
package main

import (
	"bytes"
	"encoding/json"
	"fmt"
	"os"
	"os/exec"
	"path/filepath"
	"strings"
	"unicode"

	"google.golang.org/protobuf/proto"
	"google.golang.org/protobuf/reflect/protodesc"
	"google.golang.org/protobuf/reflect/protoreflect"
	"google.golang.org/protobuf/reflect/protoregistry"
	"google.golang.org/protobuf/types/descriptorpb"
	"google.golang.org/protobuf/types/pluginpb"

	_ "google.golang.org/protobuf/types/known/durationpb"
	_ "google.golang.org/protobuf/types/known/timestamppb"
	_ "reduction.dev/reduction-protocol/handlerpb"
	_ "reduction.dev/reduction-protocol/jobconfigpb"
)

type tok struct {
	s   string
	str bool
}

func lex(src string) []tok {
	var out []tok
	i := 0
	for i < len(src) {
		c := src[i]
		switch {
		case c == ' ' || c == '\t' || c == '\n' || c == '\r':
			i++
		case strings.HasPrefix(src[i:], "//"):
			for i < len(src) && src[i] != '\n' {
				i++
			}
		case strings.HasPrefix(src[i:], "/*"):
			j := strings.Index(src[i+2:], "*/")
			if j < 0 {
				panic("unterminated comment")
			}
			i += j + 4
		case c == '"':
			j := i + 1
			for src[j] != '"' {
				if src[j] == '\\' {
					panic("escapes unsupported")
				}
				j++
			}
			out = append(out, tok{src[i+1 : j], true})
			i = j + 1
		case unicode.IsLetter(rune(c)) || c == '_' || unicode.IsDigit(rune(c)) || c == '.':
			j := i
			for j < len(src) && (unicode.IsLetter(rune(src[j])) || src[j] == '_' || unicode.IsDigit(rune(src[j])) || src[j] == '.') {
				j++
			}
			out = append(out, tok{src[i:j], false})
			i = j
		default:
			out = append(out, tok{string(c), false})
			i++
		}
	}
	return out
}

type parser struct {
	t []tok
	i int
}

func (p *parser) peek() string { return p.t[p.i].s }
func (p *parser) next() tok   { t := p.t[p.i]; p.i++; return t }
func (p *parser) expect(s string) {
	if t := p.next(); t.s != s || t.str {
		panic(fmt.Sprintf("expected %q got %q at token %d", s, t.s, p.i))
	}
}
func (p *parser) eof() bool { return p.i >= len(p.t) }

var scalars = map[string]descriptorpb.FieldDescriptorProto_Type{
	"double": descriptorpb.FieldDescriptorProto_TYPE_DOUBLE, "float": descriptorpb.FieldDescriptorProto_TYPE_FLOAT,
	"int64": descriptorpb.FieldDescriptorProto_TYPE_INT64, "uint64": descriptorpb.FieldDescriptorProto_TYPE_UINT64,
	"int32": descriptorpb.FieldDescriptorProto_TYPE_INT32, "uint32": descriptorpb.FieldDescriptorProto_TYPE_UINT32,
	"fixed64": descriptorpb.FieldDescriptorProto_TYPE_FIXED64, "fixed32": descriptorpb.FieldDescriptorProto_TYPE_FIXED32,
	"sfixed64": descriptorpb.FieldDescriptorProto_TYPE_SFIXED64, "sfixed32": descriptorpb.FieldDescriptorProto_TYPE_SFIXED32,
	"sint64": descriptorpb.FieldDescriptorProto_TYPE_SINT64, "sint32": descriptorpb.FieldDescriptorProto_TYPE_SINT32,
	"bool": descriptorpb.FieldDescriptorProto_TYPE_BOOL, "string": descriptorpb.FieldDescriptorProto_TYPE_STRING,
	"bytes": descriptorpb.FieldDescriptorProto_TYPE_BYTES,
}

func jsonName(n string) string {
	var b strings.Builder
	up := false
	for _, r := range n {
		if r == '_' {
			up = true
			continue
		}
		if up {
			b.WriteRune(unicode.ToUpper(r))
			up = false
		} else {
			b.WriteRune(r)
		}
	}
	return b.String()
}

func parseFile(name, src string) *descriptorpb.FileDescriptorProto {
	p := &parser{t: lex(src)}
	fd := &descriptorpb.FileDescriptorProto{Name: proto.String(name)}
	for !p.eof() {
		switch t := p.next(); t.s {
		case "syntax":
			p.expect("=")
			s := p.next().s
			if s != "proto3" {
				panic("only proto3 supported")
			}
			fd.Syntax = proto.String(s)
			p.expect(";")
		case "import":
			if p.peek() == "public" || p.peek() == "weak" {
				panic("import modifiers unsupported")
			}
			fd.Dependency = append(fd.Dependency, p.next().s)
			p.expect(";")
		case "package":
			fd.Package = proto.String(p.next().s)
			p.expect(";")
		case "option":
			k := p.next().s
			p.expect("=")
			v := p.next().s
			p.expect(";")
			if k != "go_package" {
				panic("unsupported option " + k)
			}
			fd.Options = &descriptorpb.FileOptions{GoPackage: proto.String(v)}
		case "message":
			fd.MessageType = append(fd.MessageType, p.message())
		case "service":
			fd.Service = append(fd.Service, p.service())
		case ";":
		default:
			panic("unsupported top-level " + t.s)
		}
	}
	return fd
}

func (p *parser) field(m *descriptorpb.DescriptorProto, oneof int) {
	f := &descriptorpb.FieldDescriptorProto{Label: descriptorpb.FieldDescriptorProto_LABEL_OPTIONAL.Enum()}
	ty := p.next().s
	if ty == "repeated" {
		f.Label = descriptorpb.FieldDescriptorProto_LABEL_REPEATED.Enum()
		ty = p.next().s
	}
	if ty == "optional" || ty == "map" || ty == "required" {
		panic("unsupported field modifier " + ty)
	}
	if st, ok := scalars[ty]; ok {
		f.Type = st.Enum()
	} else {
		f.Type = descriptorpb.FieldDescriptorProto_TYPE_MESSAGE.Enum() // enums resolved later if ever needed
		f.TypeName = proto.String(ty)                                  // resolved in link()
	}
	f.Name = proto.String(p.next().s)
	f.JsonName = proto.String(jsonName(*f.Name))
	p.expect("=")
	var n int32
	fmt.Sscanf(p.next().s, "%d", &n)
	f.Number = proto.Int32(n)
	if p.peek() == "[" {
		panic("field options unsupported")
	}
	p.expect(";")
	if oneof >= 0 {
		f.OneofIndex = proto.Int32(int32(oneof))
	}
	m.Field = append(m.Field, f)
}

func (p *parser) message() *descriptorpb.DescriptorProto {
	m := &descriptorpb.DescriptorProto{Name: proto.String(p.next().s)}
	p.expect("{")
	for p.peek() != "}" {
		switch p.peek() {
		case "oneof":
			p.next()
			m.OneofDecl = append(m.OneofDecl, &descriptorpb.OneofDescriptorProto{Name: proto.String(p.next().s)})
			p.expect("{")
			for p.peek() != "}" {
				p.field(m, len(m.OneofDecl)-1)
			}
			p.expect("}")
		case "message", "enum", "reserved", "option", "extensions", "map":
			panic("unsupported in message: " + p.peek())
		case ";":
			p.next()
		default:
			p.field(m, -1)
		}
	}
	p.expect("}")
	return m
}

func (p *parser) service() *descriptorpb.ServiceDescriptorProto {
	s := &descriptorpb.ServiceDescriptorProto{Name: proto.String(p.next().s)}
	p.expect("{")
	for p.peek() != "}" {
		if p.peek() == ";" {
			p.next()
			continue
		}
		p.expect("rpc")
		m := &descriptorpb.MethodDescriptorProto{Name: proto.String(p.next().s)}
		p.expect("(")
		if p.peek() == "stream" {
			panic("streaming unsupported")
		}
		m.InputType = proto.String(p.next().s)
		p.expect(")")
		p.expect("returns")
		p.expect("(")
		if p.peek() == "stream" {
			panic("streaming unsupported")
		}
		m.OutputType = proto.String(p.next().s)
		p.expect(")")
		if p.peek() == "{" {
			p.next()
			p.expect("}")
		} else {
			p.expect(";")
		}
		s.Method = append(s.Method, m)
	}
	p.expect("}")
	return s
}

// link resolves type names to fully-qualified names using the message names
// visible through the file's own package and its direct imports.
func link(fd *descriptorpb.FileDescriptorProto, all map[string]*descriptorpb.FileDescriptorProto) {
	known := map[string]bool{}
	add := func(f *descriptorpb.FileDescriptorProto) {
		for _, m := range f.MessageType {
			known["."+f.GetPackage()+"."+m.GetName()] = true
		}
	}
	add(fd)
	for _, d := range fd.Dependency {
		dep, ok := all[d]
		if !ok {
			panic("missing import " + d)
		}
		add(dep)
	}
	resolve := func(n string) string {
		// protoc scoping: try innermost package scope outward, then absolute
		pkg := fd.GetPackage()
		for {
			cand := "." + n
			if pkg != "" {
				cand = "." + pkg + "." + n
			}
			if known[cand] {
				return cand
			}
			if pkg == "" {
				break
			}
			if i := strings.LastIndex(pkg, "."); i >= 0 {
				pkg = pkg[:i]
			} else {
				pkg = ""
			}
		}
		panic(fmt.Sprintf("%s: cannot resolve type %q", fd.GetName(), n))
	}
	for _, m := range fd.MessageType {
		for _, f := range m.Field {
			if f.TypeName != nil {
				f.TypeName = proto.String(resolve(*f.TypeName))
			}
		}
	}
	for _, s := range fd.Service {
		for _, m := range s.Method {
			m.InputType = proto.String(resolve(*m.InputType))
			m.OutputType = proto.String(resolve(*m.OutputType))
		}
	}
}

func main() {
	repo, out, bindir := os.Args[1], os.Args[2], os.Args[3]
	var protos []string
	for _, pat := range []string{"proto/*/*.proto", "connectors/*/*/*.proto"} {
		m, _ := filepath.Glob(filepath.Join(repo, pat))
		for _, f := range m {
			rel, _ := filepath.Rel(repo, f)
			protos = append(protos, rel)
		}
	}
	all := map[string]*descriptorpb.FileDescriptorProto{}
	// well-known + reduction-protocol files come from the linked-in Go packages
	protoregistry.GlobalFiles.RangeFiles(func(f protoreflect.FileDescriptor) bool {
		all[f.Path()] = protodesc.ToFileDescriptorProto(f)
		return true
	})
	for _, rel := range protos {
		src, err := os.ReadFile(filepath.Join(repo, rel))
		if err != nil {
			panic(err)
		}
		all[rel] = parseFile(rel, string(src))
	}
	for _, rel := range protos {
		link(all[rel], all)
	}
	// topological order
	var order []*descriptorpb.FileDescriptorProto
	seen := map[string]bool{}
	var visit func(n string)
	visit = func(n string) {
		if seen[n] {
			return
		}
		seen[n] = true
		f, ok := all[n]
		if !ok {
			panic("missing file " + n)
		}
		for _, d := range f.Dependency {
			visit(d)
		}
		order = append(order, f)
	}
	for _, rel := range protos {
		visit(rel)
	}
	// validate with protodesc (same checks protoc would make on a linked set)
	if _, err := protodesc.NewFiles(&descriptorpb.FileDescriptorSet{File: order}); err != nil {
		panic(err)
	}
	req := &pluginpb.CodeGeneratorRequest{FileToGenerate: protos, Parameter: proto.String("paths=source_relative"), ProtoFile: order}
	reqBytes, _ := proto.Marshal(req)
	for _, plugin := range []string{"protoc-gen-go", "protoc-gen-connect-go"} {
		cmd := exec.Command(filepath.Join(bindir, plugin))
		cmd.Stdin = bytes.NewReader(reqBytes)
		var so, se bytes.Buffer
		cmd.Stdout, cmd.Stderr = &so, &se
		if err := cmd.Run(); err != nil {
			panic(fmt.Sprintf("%s: %v: %s", plugin, err, se.String()))
		}
		var resp pluginpb.CodeGeneratorResponse
		if err := proto.Unmarshal(so.Bytes(), &resp); err != nil {
			panic(err)
		}
		if resp.Error != nil {
			panic(*resp.Error)
		}
		for _, f := range resp.File {
			dst := filepath.Join(out, f.GetName())
			os.MkdirAll(filepath.Dir(dst), 0o755)
			if err := os.WriteFile(dst, []byte(f.GetContent()), 0o644); err != nil {
				panic(err)
			}
			fmt.Println("wrote", f.GetName())
		}
	}
	// overlay file mapping repo paths to generated files
	ov := map[string]map[string]string{"Replace": {}}
	filepath.Walk(out, func(p string, info os.FileInfo, err error) error {
		if err == nil && !info.IsDir() && strings.HasSuffix(p, ".go") {
			rel, _ := filepath.Rel(out, p)
			ov["Replace"][filepath.Join(repo, rel)] = p
		}
		return nil
	})
	b, _ := json.MarshalIndent(ov, "", " ")
	os.WriteFile(filepath.Join(out, "overlay.json"), b, 0o644)
}
