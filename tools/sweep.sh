#!/bin/bash
# Runs one tier of every claimed check and prints one line per property.
here=$(cd "$(dirname "$0")/.." && pwd)
tier=${1:-quick}
for p in $(python3 -c "import json;print(' '.join(c['property_id'] for c in json.load(open('$here/MANIFEST.json'))['checks']))"); do
  t0=$(date +%s)
  out=$("$here/check" $p $tier 2>&1); rc=$?
  echo "$p rc=$rc secs=$(( $(date +%s) - t0 )) $(echo "$out" | grep -v '^KNOWN' | head -2 | cut -c1-160 | tr '\n' ' ')"
done
