#!/bin/bash
# Runs one tier of every claimed check and prints one line per property.
tier=${1:-quick}
for p in $(python3 -c "import json;print(' '.join(c['property_id'] for c in json.load(open('/verif/MANIFEST.json'))['checks']))"); do
  t0=$(date +%s)
  out=$(/verif/check $p $tier 2>&1); rc=$?
  echo "$p rc=$rc secs=$(( $(date +%s) - t0 )) $(echo "$out" | grep -v '^KNOWN' | head -2 | cut -c1-160 | tr '\n' ' ')"
done
