#!/bin/bash
# Runs the quick tier of each seeded change's own property (plus the checks its
# meta.json names as catching it) against the change, one after another, and
# prints one line per (change, check). Usage: tools/seedmatrix.sh [name...]
here=$(cd "$(dirname "$0")/.." && pwd)
names=("$@"); [ ${#names[@]} -eq 0 ] && names=($(ls "$here/seeded"))
for n in "${names[@]}"; do
  d="$here/seeded/$n"; [ -f "$d/meta.json" ] || continue
  props=$(python3 - "$d/meta.json" <<'P'
import json,sys,re
m=json.load(open(sys.argv[1]))
ps=[m['property']]
for k,v in m.get('checks_run',{}).items():
    for p in re.findall(r'C\d\d',k):
        if p not in ps and 'VIOLATION' in v: ps.append(p)
print(' '.join(ps))
P
)
  cp "$d/patch.diff" "/root/scratch/mx_$n.diff"
  "$here/tools/sens.sh" "/root/scratch/mx_$n.diff" $props 2>&1 | grep -av "ignored null" | sed "s/^mx_//" | cut -c1-200
  rm -f "/root/scratch/mx_$n.diff"
done
