#!/bin/bash
# Runs a sweep of one tier while N busy loops compete for the cores, to expose
# checks whose verdict depends on timing. Usage: tools/underload.sh [tier] [hogs] [props...]
here=$(cd "$(dirname "$0")/.." && pwd)
tier=${1:-quick}; hogs=${2:-14}; shift 2
pids=()
for i in $(seq $hogs); do ( while :; do :; done ) & pids+=($!); done
trap 'kill "${pids[@]}" 2>/dev/null' EXIT
if [ $# -gt 0 ]; then
  for p in "$@"; do
    t0=$(date +%s); out=$("$here/check" $p $tier 2>&1); rc=$?
    echo "$p rc=$rc secs=$(( $(date +%s) - t0 )) $(echo "$out" | grep -v '^KNOWN' | head -2 | cut -c1-200 | tr '\n' ' ')"
  done
else
  "$here/tools/sweep.sh" $tier
fi
