#!/bin/bash
# Confirms a seeded change: applies at /repo HEAD, builds, passes the pinned
# suite, and its demonstration fails with it and passes without it.
# Usage: tools/seedverify.sh <ID> <pkgdir> <demo file> <-run pattern>
set -u
. /verif/env.sh
id=$1; pkg=$2; demo=$3; pat=$4
base=${SEEDBASE:-/tmp/seed}; wt=$base/$id/wt; out=$base/$id/out
H=$(git -C /repo rev-parse HEAD)
git -C $wt checkout -q -- . ; git -C $wt ls-files --others --exclude-standard | sed "s|^|$wt/|" | xargs -r rm -f
git -C $wt checkout -q --detach $H || exit 2
git -C $wt apply --check $out/patch.diff || { echo "$id: patch does not apply at HEAD"; exit 2; }
git -C $wt apply $out/patch.diff
cd $wt
go build ./... || { echo "$id: BUILD FAILS"; exit 1; }
go vet ./$pkg/ >/dev/null 2>&1 || echo "$id: vet complains in $pkg"
suite=$(go test -vet=off -count=1 ./batching/... ./dkv/... ./storage/locations/... ./storage/objstore/... ./util/... 2>&1 | grep -v "^ok\|no test files")
[ -n "$suite" ] && { echo "$id: PINNED SUITE FAILS: $suite"; }
other=$(go test -vet=off -count=1 ./workers/... ./jobs/... ./storage/snapshots/... ./partitioning/... 2>&1 | grep -v "^ok\|no test files")
[ -n "$other" ] && echo "$id: other tests fail: $(echo "$other" | head -5)"
cp $out/$demo $pkg/
with=$(go test -vet=off -count=1 -run "$pat" ./$pkg/ 2>&1 | tail -1)
git -C $wt apply -R $out/patch.diff
without=$(go test -vet=off -count=1 -run "$pat" ./$pkg/ 2>&1 | tail -1)
rm -f $pkg/$demo
echo "$id: suite=$([ -z "$suite" ] && echo ok || echo FAIL) demo-with=[$with] demo-without=[$without]"
