#!/usr/bin/env python3
"""Pretty-print an lsm Program replay file."""
import json,base64,sys
d=json.load(open(sys.argv[1])); p=d['program']
b=lambda x: base64.b64decode(x or '')
print(p['Cfg'], 'keys',len(p['Keys']), 'ops',len(p['Ops']), 'crashall',p.get('CrashAll'), p.get('CrashSample'))
for i,o in enumerate(p['Ops']):
    k=o['Kind']; s=f"{i} {k}"
    if k in('put','del','get','swapread'): s+=f" {b(p['Keys'][o['Key']%len(p['Keys'])])!r}"
    if k=='put': s+=f" = {b(o['Val'])!r}"
    if k=='hold': s+=f" class={['flush','compact','wal','ckpt'][o['A']%4]} on={o['On']}"
    if k in ('restore','retain'): s+=f" A={o['A']} B={o['B']} small={o['On']}"
    print(s)
print(d.get('msg','')[:400])
