#!/usr/bin/env python3
"""Regenerates /verif/MANIFEST.json from the table below (claimed checks are
those whose harness package exists) and validates it against the schema."""
import json, os, subprocess, sys

ROOT = os.path.dirname(os.path.dirname(os.path.abspath(__file__)))

CHECKS = {
    "C19": dict(
        level="exploration", design="DESIGN.md section 4 C19",
        text="Eight rapid model-based checks (zip tree with generator-chosen ranks, heap with Fix, partitioned priority queue, sorted cache, insertion-ordered set, sorted map, the three merge iterators, unique binary search) compare every return value with a sorted-slice/map reference, and the full iteration after every operation (for the lazily sorted map: at observation ops of their own and at the end, so that writes follow writes). Exploration is the right level: the structures are small pure data structures, operation sequences are cheap (tens of microseconds), so hundreds of thousands of distinct sequences over colliding keys are run per invocation; nothing is proved.",
        note="Trusts the reference models (a few lines each) and rapid's generators. Tie order among equal priorities is not compared. Zip-tree ranks come from the generator through the verif-tagged ziptree.rank hook.",
        technique="property-based testing: rapid model-based operation sequences vs sorted-slice/map reference models",
    ),
}


CHECKS.update({
    "C17": dict(level="exploration", design="DESIGN.md section 4 C17",
        text="Round-trip checks over generated entry runs: every run is written as one table and as size-bounded tables (WriteRun), then every key, neighbouring absent keys and several prefixes are read back by Get and ScanPrefix, again after reopening each table from its JSON-serialised descriptor and through a LevelList; split tables must have disjoint ascending ranges; bloom filters must accept every added key also after Encode/Decode. WAL: Put/Delete/Cut/Truncate/Rotate sequences, every sealed writer is saved and read back with every legal start marker. The oracle is the input itself, so exploration over many generated runs is the natural level.",
        note="Trusts the in-memory FileSystem of the repository and the harness' reference (the sorted input run / the list of appended operations). Empty runs are outside the domain (no caller writes an empty table).",
        technique="property-based testing: rapid generated runs, round-trip oracle (write -> read back / reopen from descriptor)"),
    "C05": dict(level="exploration", design="DESIGN.md section 4 C05",
        text="Differential check of the key space against an independent MurmurHash3_x86_32 and an arithmetic reference partition over generated (group count, operator count, key) triples, pinned by 23 published hash vectors; ranges are checked to be contiguous, covering and within one of each other in size. Part (b), through the real operator and source runner, is covered by the operator-level checks (C03/C06 compare persisted prefixes and routing).",
        note="Trusts the harness reference hash, itself pinned by published vectors.",
        technique="property-based testing: differential against an independent reference implementation + golden vectors"),
    "C20": dict(level="exploration", design="DESIGN.md section 4 C20",
        text="EventBatcher: model-based sequences of Add/IsFull/Flush(token)/timer expiry (including callbacks that run late: the time-out of a batch flushed already must not announce the current batch) against a list model. ReorderFetcher: real goroutines with generated fetch latencies and pauses injected through a verif hook between Flush and Reserve; the output must be the inputs in order. Interleavings are sampled, not enumerated.",
        note="Schedules are explored by injected microsecond pauses; a failing schedule may need several replay attempts (replay retries 20 times).",
        technique="property-based testing: rapid model-based sequences; schedule fuzzing with injected delays"),
    "C18": dict(level="exploration", design="DESIGN.md section 4 C18",
        text="Generated histories of level-0 flushes, single real Compactor.Compact steps (with flushes arriving between computing and applying the change set) and compaction to a fixed point, over generated compactor settings that populate middle and multi-table levels. After every step: levels >= 1 sorted and non-overlapping, per-key sequence numbers strictly decreasing in lookup order, Get of every key and five prefix scans equal a map model.",
        note="Uses only the exported sst API, adding level-0 tables exactly as DB.rotateMemtable does. Tombstones may persist; only visibility and ordering are compared.",
        technique="property-based testing: rapid generated histories vs map model + layout invariant after every step"),
    "C07": dict(level="exploration", design="DESIGN.md section 4 C07",
        text="Generated put/delete/get/scan histories on a real dkv.DB with tiny memtable/file sizes, with the table writes of flush and compaction tasks held and released by the program through a gating FileSystem and reads parked between their two snapshots (verif hook) while a flush swap completes. Every read is compared with a map model. Scan prefixes are drawn from the whole adversarial pool (including prefixes ending in 0xFF).",
        note="The moments explored are those reachable by holding table writes and by the park point; other interleavings of the background goroutines are not enumerated.",
        technique="property-based testing: rapid stateful histories vs map model with harness-owned background scheduling"),
    "C08": dict(level="fault_enumeration", design="DESIGN.md section 4 C08",
        text="The C07 history plus Checkpoint/Retain/holds of WAL and checkpoint-file saves. Every storage operation is journaled; for each retained handle the storage as of later operations is rebuilt and the handle is opened on it and compared (Get of every key + full scan) with the model copy taken at the Checkpoint call. The thorough tier enumerates every storage operation after the handle was returned (VERIF_CRASH_ALL=1); quick restores at the end plus up to three drawn points. Restored databases are written to, checkpointed and restored again up to depth 3. The histories are sampled, the crash points are enumerated: fault enumeration. Retention updates may be late by up to three checkpoints; the first reads of every restored database come from three goroutines at once.",
        note="Save/Delete/Copy are treated as atomic; a crash is modelled between storage operations. UpdateRetainedCheckpoints is issued only when no checkpoint save is pending.",
        technique="property-based testing with crash-point enumeration over a journaled file system; snapshot oracle"),
    "C09": dict(level="exploration", design="DESIGN.md section 4 C09",
        text="DKV part: generated histories with checkpoints, retention updates, forced garbage collection and reopening on the same storage in the same process; after every step every file referenced by a retained checkpoint document must exist, every retained checkpoint must restore to its snapshot, WAL files of dropped checkpoints must be gone after the retention update, and the live database must answer every read. One genuine defect (previous database object deleting files after a same-process reopen) is an open known finding and is excluded by construction. Operator part (TestPropNeighbours): a real operator writes state and checkpoints, the job is rescaled 1 -> 2..3 through the real Assembly.Deploy so that the new operators share the old tables, they rewrite and compact, run 1..3 rounds of checkpoint + UpdateRetainedCheckpoints with forced garbage collection, while each neighbour's NeedsTable answers truthfully, with an error, or not at all (drawn plan); every table named by a checkpoint document an operator retains must still exist, and every operator must answer reads of its keys. TestPropRetainedAcrossMerge: M databases merged into N (fresh directories or the directory of an origin), job-style checkpoints and uniform retention updates; after every retention update every retained checkpoint - including the merged one - must have all table and WAL files and restore to its snapshot.",
        note="GC timing is explored at forced collection points only. An unreachable and a slow neighbour are both modelled as an error answer of NeedsTable.",
        technique="property-based testing: rapid stateful histories with forced GC, file-existence invariant over a journaled file system"),
})

CHECKS.update({
    "C03": dict(level="exploration", design="DESIGN.md section 4 C03",
        text="A real operator.Operator (DKV tuned to a memtable of a few hundred bytes through the verif hooks so that flush and compaction run underneath) is fed generated keyed events that carry the script the reference handler executes: puts/deletes over adversarial namespaces, entry keys and subject keys in prefix relation, with batch sizes 1..6, time-out flushes, checkpoints and restores. On every ProcessEventBatch the supplied KeyState of every key is compared with a shadow map built from the mutations returned so far.",
        note="The handler is a pure function of the event values. Storage is an in-memory FileSystem substituted through the dkv.options hook. A stopped operator models a dead process (its objects are kept reachable so no cleanup runs).",
        technique="property-based testing: rapid generated event scripts through the real operator vs a shadow-map reference handler"),
    "C10": dict(level="exploration", design="DESIGN.md section 4 C10",
        text="(a) TimerRegistry + TimerStore on a real small DKV with cache sizes from one byte to unbounded: generated SetTimer / AdvanceWatermark / checkpoint+restore sequences against a set model; each advance must fire exactly the due timers once, in order, and a final drain must leave nothing. (b) The same through the real Operator with the cache shrunk by a verif hook; the reference handler rejects phantom, duplicate and early firings and the harness rejects due timers left pending after a flush. The registry/store check owns the range of one of 1..3 operators (ranges not starting at group 0).",
        note="Tie order is free; a timer set at or before the current minimum watermark is a documented no-op.",
        technique="property-based testing: rapid stateful sequences vs a pending-timer set model"),
    "C11": dict(level="exploration", design="DESIGN.md section 4 C11",
        text="(a) wmark.Watermarker over arbitrary timestamp sequences: monotone, strictly below the maximum, exactly max-1ns. (b) Real operators with 1..4 upstream ids under generated interleavings of events, watermarks, flushes and checkpoints: every ProcessEventBatch request must carry the minimum of the latest upstream watermarks and no timer beyond it may fire. The runner-side clause (watermarks stamped from what was forwarded, under harness-driven ticks) is checked in the cluster harness of C04. Watermarker timestamps are drawn from the whole time.Time range (before 1970, around the epoch, outside the int64-nanosecond window).",
        note="Before the first watermark message the operator reports year 1, treated as the epoch.",
        technique="property-based testing: rapid histories vs a min-of-upstreams model"),
    "C06": dict(level="exploration", design="DESIGN.md section 4 C06",
        text="Generated operator histories (state, timers, watermarks, tiny DKV) with 1..4 operators, checkpointed and restored through the real jobs.Assembly.Deploy into 1..4 fresh operators with the operator checkpoints recorded in a drawn permutation, then probed and continued, with further rescales. Plus a direct differential of AssignRanges against a quadratic overlap scan. One genuine defect (re-merging tables that hold foreign keys after a second change of the operator count) is an open known finding and excluded by construction. TestPropMergeRestore checks the mechanism below the operator with tens of thousands of cases: M dkv.DB instances checkpointed, their handles recorded in a drawn order and opened as N instances (merge of level lists and WALs, ownership-filtered replay, sequence numbers resumed), every key read through Get and ScanPrefix against a map model, further writes that return to restored entries, a second restore or a second change of the count (the latter only while no table exists: open finding).",
        note="The harness plays the source runners and routes by the reference key-group arithmetic. Only visibility through the handler API is asserted.",
        technique="property-based testing: rapid histories through real operators and Assembly.Deploy vs shadow-map/timer-set model; differential for AssignRanges"),
})

CHECKS.update({
    "C02": dict(level="exploration", design="DESIGN.md section 4 C02",
        text="One real Operator and 1..4 sender goroutines with generated sequences of events, watermarks and barriers for 1..3 checkpoints. A generated schedule picks which sender advances; a step ends when that sender's HandleEvent returned or parked in the alignment wait (reported by a verif hook). At every OperatorCheckpointComplete the handler must have applied exactly the pre-barrier events of every sender and must not have acted on post-barrier watermarks; each reported checkpoint is then restored and probed. The schedule also contains expiries of the handler batch's time-out, whose token reaches the operator's loop whenever the loop picks it.",
        note="The schedule is owned at the granularity of HandleEvent calls; the re-entry order of released senders is left to the Go scheduler (the oracle does not depend on it).",
        technique="property-based testing: rapid generated schedules over real goroutines with hook-reported parking; cut-membership oracle"),
    "C12": dict(level="exploration", design="DESIGN.md section 4 C12",
        text="snapshots.Store over a journaling in-memory StorageLocation: generated sequences of create-checkpoint / create-savepoint / operator and runner acknowledgements (expected, duplicate, foreign; pending, stale, future ids) / restarts. A model of the pending checkpoint decides when a publication must happen (awaited on the store's CheckpointEvents) and when it must not; every published file is decoded and compared entry by entry. A 'new assembly' op abandons the pending checkpoint as jobs.Job.start does (its id stays used, later acknowledgements for it are foreign); in a quarter of the cases operator i and source runner i share a node id. In a third of the cases the acknowledgement that completes a checkpoint is sent a second time from another goroutine while the store asks the splitter for its state.",
        note="An id handed out but never published may be reused after a restart. Split states are compared as a multiset.",
        technique="property-based testing: rapid model-based call sequences vs a pending-checkpoint model"),
    "C13": dict(level="fault_enumeration", design="DESIGN.md section 4 C13",
        text="snapshots.Store with the asynchronous snapshot writes and removals held and released one at a time so that publications of consecutive checkpoints overlap, retention notifications received late, clean restarts. Every storage operation is journaled; at crash points (all of them in the thorough tier, the end plus <=4 drawn ones in quick) a new Store must load exactly the newest checkpoint present in the materialised storage; no Remove may name the newest completely written checkpoint; retention notifications never go backwards. One in ten cases replays the final storage through the real LocalDirectory. The publication goroutines can also be held at their very start (verif hook point) and released youngest first; a quarter of the completed checkpoints are savepoints whose artifact is assembled from an operator checkpoints file that follows the retention updates: every savepoint the job completed must have its artifact and no publication may fail.",
        note="Write/Remove are atomic in the journal; a crash inside one Write is out of scope. The newest checkpoint is determined by decoding the files, independently of their names.",
        technique="property-based testing with crash-point enumeration over a journaled storage location; gated asynchronous steps and hook-held publication starts"),
    "C15": dict(level="exploration", design="DESIGN.md section 4 C15",
        text="The real jobs.Job with recording fake operators and source runners, a FrozenClock and a journaling storage location: generated histories of worker starts, graceful stops, kills (heartbeat expiry), checkpoint ticks, full and partial acknowledgements and injected Deploy failures. The recorded calls are examined after every step: deployments address exactly WorkerCount registered live operators and runners and hand over the latest completed checkpoint, StartCheckpoint only reaches the current healthy assembly, ticks start checkpoints, full acknowledgement publishes a snapshot, a lost assembly is replaced when enough live workers exist. Deployment windows: the Deploy calls of a round block while a drawn member deregisters or stops heartbeating, then they are let go (the round is triggered by a worker starting, or by a member leaving with a standby present). In a third of the cases the job process is started from a savepoint made by a real Store; every later deployment must still hand over the newest completed checkpoint.",
        note="Liveness is bounded progress under harness-owned steps. Worker-side recovery is covered by the cluster-level check C01 when built.",
        technique="property-based testing: rapid generated histories against recording fakes; invariants over the call history"),
})

CHECKS.update({
    "C01": dict(level="exploration", design="DESIGN.md section 4 C01",
        text="A real in-process cluster (jobs.Job, 1..3 workers each with the real operator and source runner, real batching, snapshot store and DKV) over a bounded harness source, with every inter-node call passing a harness gate. A fault plan drawn per case ticks checkpoints, kills workers (heartbeats stop, replacements start) and restarts the job at drawn call counts. The reference handler keeps per (key, split) the number of applied records in state and on every invocation requires the supplied count to equal the record's ordinal; a final checkpoint is read back and must hold exactly the totals. Two genuine defects are open findings (in-place redeploy of surviving workers; see known_findings.json) and excluded by construction.",
        note="Fault points are drawn, goroutine interleavings between gates are not enumerated. A killed worker models a dead process. A stall of 15 s with live workers and undelivered input is reported as a stuck pipeline.",
        technique="property-based testing / fault injection: rapid generated inputs and fault plans on a real in-process cluster; per-invocation ordinal oracle"),
    "C04": dict(level="exploration", design="DESIGN.md section 4 C04",
        text="The C01 cluster without failures, with drawn batch sizes, read batches, a 1 ms batch time-out and per-call KeyEventBatch latencies so that asynchronous completions arrive out of order. Every operator's incoming stream is recorded at the transport: each record exactly once at the operator owning its key group, per (split,key) in split order, watermarks monotone and below the largest forwarded timestamp, barrier positions consistent with reported split positions, plus the C01 state oracle. Subject keys include the empty key and a NUL byte; the source runners' watermark ticker is driven by the plan (hook), and every watermark must be identical in every operator's stream and derived from a record its runner forwarded before it (this is also the runner-side clause of C11).",
        note="Timings are drawn, interleavings not enumerated; watermark assertions are limited to orderings that hold under any delivery lag.",
        technique="property-based testing: rapid generated inputs/timings on a real in-process cluster; stream-recording oracle"),
    "C16": dict(level="exploration", design="DESIGN.md section 4 C16",
        text="(1) Cluster runs with ticks, kills and job restarts: for every source-runner acknowledgement the reported split positions must agree with the barrier position in every operator stream, every split is taken over by at most one reader per splitter start and resumes at the restored checkpoint's position. (2) kinesis.SplitTracker against a shard-lineage model. (3) The real kinesis.SourceSplitter against the repository's fake Kinesis over loopback with generated split/merge/finish/checkpoint-restore histories: no child before its parents are finished, no shard twice, none lost. One genuine defect (a restore forgets blocked shards below the marker) is an open finding, excluded by construction.",
        note="The Kinesis part needs loopback sockets; discovery runs on 1 ms wall-clock ticks with 6 ms settling per step.",
        technique="property-based testing: rapid generated histories; stream/assignment oracles; model-based for the tracker"),
    "C14": dict(level="exploration", design="DESIGN.md section 4 C14",
        text="Cluster runs in which HandleCreateSavepoint is called at a drawn moment - in half of the cases while a periodic checkpoint is held pending (it must fold into it: same id, no second StartCheckpoint), in a third while a further checkpoint completes during the artifact's assembly. Once the artifact exists everything is stopped and every file of the working storage and of the job's checkpoint directory is deleted; a new job is started from the savepoint URI with the same or another worker count and must process the rest of the input under the exactly-once oracle and end with the correct totals. In a fifth of the cases the goroutine that publishes the savepoint's checkpoint is held at its start while the next periodic checkpoint is started; in half of the cases the restored job is itself saved (right after its deployment or after the rest of the input), wiped and restored once more, with a bias to fewer workers and small memtables. TestPropLocalDirectory checks the real LocalDirectory against a map model (Write/Copy/Remove/Read/List): a copy must be a file of its own.",
        note="Job and operator storage share one in-memory file system through a StorageLocation adapter; the real snapshot-store code creates and restores the artifact.",
        technique="property-based testing: rapid generated runs with savepoint/wipe/restore; exactly-once oracle as the differential"),
})

PENDING_REASON = "check not built yet in this session; design in DESIGN.md section 4 (no other technique is substituted)"


# Dimensions added in the fifth and sixth seeding rounds (DESIGN.md 8.7).
ADDENDA = {
    "C01": "Records may be keyed into two or three events with keys of their own; the pubkill fault holds the publication of a completed checkpoint until the job is deploying the recovery from the failure that follows; slowassign makes the AssignSplits calls of a recovery take 3 ms while the checkpoint timer fires as early as the job allows; event batches are delivered through the engine's own in-process adapter (rpc.OperatorEmbeddedClient); the backlog shape uses batches of 32..64, a split of 1400..2200 records and operators that stall while a checkpoint is started.",
    "C02": "In a third of the cases one runner goes away while its request is parked in the alignment wait (the request's context is cancelled); the others complete the pending checkpoint. A third of the runners other than the first report their source exhausted and only relay barriers afterwards.",
    "C03": "Subject keys are taken from anywhere in the adversarial pool (including keys ending in 0xFF).",
    "C04": "Records may be keyed into two or three events with keys of their own; every keyed event must be delivered exactly once.",
    "C05": "The persisted-prefix check also deploys operators that were deployed before, idle, in an assembly of another size.",
    "C07": "Held table writes are told apart by what is on the writer's stack and may park where the file is created as well as where it is saved.",
    "C14": "The savepoint artifact must be byte-identical after the job restored from it took checkpoints of its own.",
    "C16": "Shares the pubkill, slowassign and backlog faults of the C01 cluster.",
    "C06": "Old databases may have been checkpointed twice, with the retention update for the newer checkpoint reaching only a drawn subset (their checkpoints files list different checkpoints). A second change of the operator count over inherited tables is explored wherever the checkpoints at hand do not put intersecting tables into one sorted level (the narrowed exclusion of the open finding).",
    "C08": "Incarnations of a restore chain write 6, 2 or no operations before they are checkpointed (chains to depth 4); a retention update may run beside a parked checkpoint save; restore chains may start from storage aged to table numbers around 1000000.",
    "C09": "Neighbours may answer NeedsTable with cancelled contexts, Canceled or Unavailable statuses, deadlines, or be asked before their deployment has opened its database. A retention update may run beside a checkpoint save that is parked at the storage; the WAL files of the checkpoints it drops must be gone when both have finished.",
    "C11": "Upstream runners may report their source exhausted (SourceComplete) while others read on; they keep bounding the minimum.",
    "C12": "One case in twelve has 8..130 operators or source runners. The storage may refuse the write of a job snapshot: then no part of the publication may happen. The generator emits runs of acknowledgements that complete the pending checkpoint.",
    "C15": "Deployment windows may carry the late acknowledgements of the checkpoint that was pending on the replaced assembly (it must not be published); a savepoint request or the checkpoint timer's callback may be overtaken by the loss of a member between its look at the job and the creation of its checkpoint (the harness parks it where it collects the member ids). The fake operators acknowledge with their own key-group range, in varying order, and every deployment must hand each operator the checkpoint parts that overlap its range.",
    "C17": "Empty keys are passed as empty or nil slices; a table's descriptor must name its first and last key. Tables are re-opened through 1..3 generations of descriptors, each of which must equal the first. TestPropLargeTable writes tables of 1000..140000 entries (around 4096, 65536 and 131072) and reads every key back from the re-opened table.",
    "C18": "A quarter of the compaction steps run with a storage read fault in one table of the layout: a step that returns an error applies nothing, one that returns a change set is applied and checked.",
    "C19": "Zip-tree scans may be consumed lazily while their loop body overwrites existing keys. mergesort.Merge is also run over strings, integers around zero and structs (types whose zero value is a legal element).",
    "C20": "TestPropBatcherOvertaken uses the batcher from two goroutines (adder and time-out flusher); the harness timer expires inside the Add that armed it, so the flusher waits with its token while the adder flushes that batch and starts later ones; the timer has a single slot and a slow Stop, and items left in the current batch must have a time-out armed.",
}
for _pid, _t in ADDENDA.items():
    CHECKS[_pid]["text"] = CHECKS[_pid]["text"] + " " + _t


def main():
    ids = ["C%02d" % i for i in range(1, 21)]
    checks, na = [], []
    for pid in ids:
        pkg = os.path.join(ROOT, "harness", pid.lower(), "props.json")
        if pid in CHECKS and os.path.exists(pkg):
            c = CHECKS[pid]
            checks.append({
                "property_id": pid,
                "quick_cmd": "./check %s quick" % pid,
                "thorough_cmd": "./check %s thorough" % pid,
                "evidence_file": "/verif/evidence/%s.json" % pid,
                "replay_cmd_template": "./check replay %s {path}" % pid,
                "engine": "rapid-harness",
                "level_claimed": {"category": c["level"], "text": c["text"], "design_ref": c["design"]},
                "level_note": c["note"],
                "technique": c["technique"],
            })
        else:
            na.append({"property_id": pid, "reason": NA.get(pid, PENDING_REASON)})
    hooks = subprocess.run(["git", "-C", "/repo", "log", "--format=%H %s"], capture_output=True, text=True).stdout.splitlines()
    hook_commits = [l.split()[0] for l in hooks if " verif hooks:" in l]
    man = {
        "version": 1,
        "setup_cmd": "./setup.sh",
        "hooks": {
            "guard": "verif",
            "enable": "go test -tags verif (build tag; util/verifhook/hook_on.go replaces the no-op hook_off.go)",
            "baseline_off_cmd": "cd /repo && go test -mod=mod -json -vet=off -count=1 -timeout 25m ./...",
            "source_commits": hook_commits,
            "add_only": True,
        },
        "engines": [
            {"name": "rapid-harness", "path": "/verif/harness", "serves_properties": [c["property_id"] for c in checks],
             "kind_free_text": "Go module outside /repo (replace reduction.dev/reduction => /repo) with one package per property; pgregory.net/rapid v1.3.0 generators draw JSON-serialisable Programs, interpreters run them against the real code and a reference model; ./check builds each package from /repo's working tree with -tags verif and generated protobuf stubs supplied through -overlay"},
            {"name": "pbgen", "path": "/verif/tools/pbgen", "serves_properties": [c["property_id"] for c in checks],
             "kind_free_text": "proto3-subset front end that drives the upstream protoc-gen-go / protoc-gen-connect-go from the module cache so that the packages depending on generated code compile offline"},
        ],
        "checks": checks,
        "not_applicable": na,
        "notes": "Technique family: property-based testing and fuzzing. See DESIGN.md. Exit 2 from a check means inconclusive (build failure, timeout), never a violation.",
    }
    out = os.path.join(ROOT, "MANIFEST.json")
    with open(out, "w") as f:
        json.dump(man, f, indent=1)
    try:
        import jsonschema
        jsonschema.validate(man, json.load(open("/root/.vp/MANIFEST.schema.json")))
        print("MANIFEST.json valid: %d checks, %d not claimed" % (len(checks), len(na)))
    except ImportError:
        print("MANIFEST.json written (jsonschema not importable here; validate with python3-vt)")


NA = {}

if __name__ == "__main__":
    main()
