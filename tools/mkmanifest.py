#!/usr/bin/env python3
"""Regenerates /verif/MANIFEST.json from the table below (claimed checks are
those whose harness package exists) and validates it against the schema."""
import json, os, subprocess, sys

ROOT = os.path.dirname(os.path.dirname(os.path.abspath(__file__)))

CHECKS = {
    "C19": dict(
        level="exploration", design="DESIGN.md section 4 C19",
        text="Eight rapid model-based checks (zip tree with generator-chosen ranks, heap with Fix, partitioned priority queue, sorted cache, insertion-ordered set, sorted map, the three merge iterators, unique binary search) compare every return value and the full iteration after every operation with a sorted-slice/map reference. Exploration is the right level: the structures are small pure data structures, operation sequences are cheap (tens of microseconds), so hundreds of thousands of distinct sequences over colliding keys are run per invocation; nothing is proved.",
        note="Trusts the reference models (a few lines each) and rapid's generators. Tie order among equal priorities is not compared. Zip-tree ranks come from the generator through the verif-tagged ziptree.rank hook.",
        technique="property-based testing: rapid model-based operation sequences vs sorted-slice/map reference models",
    ),
}

PENDING_REASON = "check not built yet in this session; design in DESIGN.md section 4 (no other technique is substituted)"


def main():
    ids = ["C%02d" % i for i in range(1, 21)]
    checks, na = [], []
    for pid in ids:
        pkg = os.path.join(ROOT, "harness", pid.lower(), "props.json")
        if pid in CHECKS and os.path.exists(pkg):
            c = CHECKS[pid]
            checks.append({
                "property_id": pid,
                "quick_cmd": "./check %s quick" % pid,
                "thorough_cmd": "./check %s thorough" % pid,
                "evidence_file": "/verif/evidence/%s.json" % pid,
                "replay_cmd_template": "./check replay %s {path}" % pid,
                "engine": "rapid-harness",
                "level_claimed": {"category": c["level"], "text": c["text"], "design_ref": c["design"]},
                "level_note": c["note"],
                "technique": c["technique"],
            })
        else:
            na.append({"property_id": pid, "reason": NA.get(pid, PENDING_REASON)})
    hooks = subprocess.run(["git", "-C", "/repo", "log", "--format=%H %s"], capture_output=True, text=True).stdout.splitlines()
    hook_commits = [l.split()[0] for l in hooks if " verif hooks:" in l]
    man = {
        "version": 1,
        "setup_cmd": "./setup.sh",
        "hooks": {
            "guard": "verif",
            "enable": "go test -tags verif (build tag; util/verifhook/hook_on.go replaces the no-op hook_off.go)",
            "baseline_off_cmd": "cd /repo && go test -mod=mod -vet=off -count=1 ./batching/... ./dkv/... ./storage/locations/... ./storage/objstore/... ./util/...",
            "source_commits": hook_commits,
            "add_only": True,
        },
        "engines": [
            {"name": "rapid-harness", "path": "/verif/harness", "serves_properties": [c["property_id"] for c in checks],
             "kind_free_text": "Go module outside /repo (replace reduction.dev/reduction => /repo) with one package per property; pgregory.net/rapid v1.3.0 generators draw JSON-serialisable Programs, interpreters run them against the real code and a reference model; ./check builds each package from /repo's working tree with -tags verif and generated protobuf stubs supplied through -overlay"},
            {"name": "pbgen", "path": "/verif/tools/pbgen", "serves_properties": [c["property_id"] for c in checks],
             "kind_free_text": "proto3-subset front end that drives the upstream protoc-gen-go / protoc-gen-connect-go from the module cache so that the packages depending on generated code compile offline"},
        ],
        "checks": checks,
        "not_applicable": na,
        "notes": "Technique family: property-based testing and fuzzing. See DESIGN.md. Exit 2 from a check means inconclusive (build failure, timeout), never a violation.",
    }
    out = os.path.join(ROOT, "MANIFEST.json")
    with open(out, "w") as f:
        json.dump(man, f, indent=1)
    try:
        import jsonschema
        jsonschema.validate(man, json.load(open("/root/.vp/MANIFEST.schema.json")))
        print("MANIFEST.json valid: %d checks, %d not claimed" % (len(checks), len(na)))
    except ImportError:
        print("MANIFEST.json written (jsonschema not importable here; validate with python3-vt)")


NA = {}

if __name__ == "__main__":
    main()
